"""Scenario generators: pipelines (with construction ground truth), failure mutations, run-spaces.

The generator keeps only the bookkeeping needed to build *valid* pipelines: current data
type, set of live context keys, and where each parameter was placed.  It does not
re-implement the interpreter: values that flow through data are taken from the leaf log.
"""
from __future__ import annotations

import copy
import random
from typing import Any

# name -> (kind, in_type, out_type, params{name: default|None}, creates[])
NODEF = object()
DEFAULT_NONE = "<the parameter's default is None>"     # in CATALOG a value of None means "no default": this marks a default that IS None


CATALOG: dict[str, dict] = {
    "SvSource": dict(kind="source", i="none", o="float", params={"value": None}),
    "SvSourceDefault": dict(kind="source", i="none", o="float", params={"value": 41.5}),
    "SvPayloadSource": dict(kind="psource", i="none", o="float", params={"seed_value": 3.25}, creates=["ps_key"]),
    "SvAdd": dict(kind="op", i="float", o="float", params={"addend": None}),
    "SvAddDefault": dict(kind="op", i="float", o="float", params={"addend": 1.5}),
    "SvMul": dict(kind="op", i="float", o="float", params={"factor": None}),
    "SvMulDefault": dict(kind="op", i="float", o="float", params={"factor": 2.0}),
    "SvClip": dict(kind="op", i="float", o="float", params={"lower": DEFAULT_NONE, "upper": DEFAULT_NONE}),
    "SvAffine": dict(kind="op", i="float", o="float", params={"gain": None, "bias": 0.25}),
    "SvCaseOp": dict(kind="op", i="float", o="float", params={"Gain": None, "gain": None}),
    "SvScaleInPlace": dict(kind="op", i="float", o="float", params={"scale": 3.0}),
    "SvToStream": dict(kind="op", i="float", o="stream", params={"step": 0.5}),
    "SvStreamSum": dict(kind="op", i="stream", o="float", params={}),
    "SvCtxWriterOpaque": dict(kind="op", i="float", o="float", params={}, creates=["opq"]),
    "SvCtxWriterArray": dict(kind="op", i="float", o="float", params={}, creates=["arr"]),
    "SvCtxWriterMixedKeys": dict(kind="op", i="float", o="float", params={}, creates=["mk"]),
    "SvWrongOutput": dict(kind="op", i="float", o="wrong", params={}),
    "SvCtxWriterA": dict(kind="op", i="float", o="float", params={"scale": 1.0}, creates=["wa"]),
    "SvCtxWriterB": dict(kind="op", i="float", o="float", params={}, creates=["wb"]),
    "SvToText": dict(kind="op", i="float", o="text", params={}),
    "SvTextLen": dict(kind="op", i="text", o="float", params={}),
    "SvCollSum": dict(kind="op", i="coll", o="float", params={"weight": 1.0}),
    "SvBumpLast": dict(kind="op", i="coll", o="coll", params={"delta": 1.0}),
    "SvProbe": dict(kind="probe", i="float", o="float", params={}),
    "SvProbeNone": dict(kind="probe", i="float", o="float", params={}),
    "SvProbeParam": dict(kind="probe", i="float", o="float", params={"offset": None}),
    "SvProbeDefault": dict(kind="probe", i="float", o="float", params={"offset": 0.5}),
    "SvFileSink": dict(kind="sink", i="float", o="float", params={"path": None}),
    "SvNullSink": dict(kind="sink", i="float", o="float", params={}),
    "SvPayloadSink": dict(kind="sink", i="float", o="float", params={}),
    "SvCtxCombine": dict(kind="ctx", i=None, o=None, params={"a_in": None, "b_in": 1.25}, creates=["comb_out"]),
}
FLOAT_OPS = ["SvAdd", "SvAddDefault", "SvMul", "SvMulDefault", "SvAffine", "SvCtxWriterA", "SvCtxWriterB", "SvCaseOp",
             "SvScaleInPlace", "SvAdd", "SvMulDefault", "SvAffine", "SvClip"]
PROBES = ["SvProbe", "SvProbeParam", "SvProbeDefault"]
EXPRS_1 = ["2.0 * {v}", "{v} + 1.5", "{v} * {v}", "0.5 + {v} * 3.0", "-{v}", "abs({v}) + 0.25",
           "{v} * 2.0 + 3.0 * {v} * {v}", "({v} + 1.0) * ({v} + 2.0)", "{v} * 4.0 + 0.5 * {v} + 1.0",
           "max({v} + 1.0, 2.0 * {v})", "abs({v} * 2.0 + 1.0)", "min({v} * {v}, {v} + 30.0) + 0.5"]      # + / * inside call arguments
EXPRS_2 = ["{a} + {b}", "{a} * {b} + 0.5", "{b} - {a}", "2.0 * {a} + 3.0 * {b}", "{a} * 2.0 + {b} * {a}",
           "({b} + {a}) * ({a} + 1.5)", "{a} * {b} + {b} * 0.25 + {a} * 1.5", "({a} + {b}) * ({b} + 2.0) + {a}",
           "max({a} + {b}, 1.0)", "min({a} * {b} + 1.0, {b} + {a})", "abs({a} * 2.0 + {b}) + max({b} * {a}, 0.5)"]


class _G:
    def __init__(self, rng: random.Random, *, allow_sweep=True, allow_slicer=True,
                 allow_file_sink=True, allow_ctx=True, max_nodes=8, real_leaves=False, allow_nonfinite=True,
                 allow_stream=True):
        self.allow_nonfinite = allow_nonfinite
        self.allow_stream = allow_stream
        self.allow_falsy = True
        self.stop = False
        self.rng = rng
        self.nodes: list[dict] = []
        self.truth: list[dict] = []
        self.ctx0: dict[str, Any] = {}
        self.live: dict[str, str] = {}  # key -> value type tag ('num','str','list')
        self.dtype = "none"
        self.used_vals: set[float] = set()
        self.nfile = 0
        self.nkey = 0
        self.nvar = 0
        self.allow_sweep = allow_sweep
        self.allow_slicer = allow_slicer
        self.allow_file_sink = allow_file_sink
        self.allow_ctx = allow_ctx
        self.max_nodes = max_nodes
        self.init_data: float | None = None

    def val(self) -> float:
        if self.allow_falsy and self.rng.random() < 0.05 and 0.0 not in self.used_vals:
            self.used_vals.add(0.0)
            return 0.0          # a falsy but perfectly legal value
        while True:
            v = self.rng.randint(1, 800) / 8.0
            if v not in self.used_vals:
                self.used_vals.add(v)
                return v

    def fresh_key(self, prefix="k") -> str:
        self.nkey += 1
        return f"{prefix}{self.nkey}"

    # -- emitting a node with bookkeeping ------------------------------
    def emit(self, node: dict, *, name: str, kind: str, out: str | None, creates=(), removes=(),
             params_spec: dict | None = None, swept=(), generated=False, fromctx=()):
        """Append node; compute expected parameter channels from current live keys."""
        cfgp = node.get("parameters", {}) or {}
        chans: dict[str, str] = {}
        missing: list[str] = []
        for p, dflt in (params_spec or {}).items():
            if p in swept:
                continue
            if p in cfgp:
                chans[p] = "node"
            elif p in self.live:
                chans[p] = "context"
            elif dflt is not None:
                chans[p] = "default"
            else:
                missing.append(p)
        for k in fromctx:
            if k not in self.live:
                missing.append(k)
        self.truth.append({
            "name": name, "kind": kind, "channels": chans, "missing": missing,
            "creates": sorted(creates), "removes": sorted(removes), "in": self.dtype,
            "out": out if out is not None else self.dtype, "generated": generated,
            "swept": sorted(swept), "live_before": sorted(self.live),
        })
        self.nodes.append(node)
        for k in removes:
            self.live.pop(k, None)
        for k in creates:
            self.live[k] = "num"
        if out is not None:
            self.dtype = out

    def place_params(self, name: str, spec: dict, node: dict, *, skip=()):
        """Choose a placement for each parameter; may emit producer nodes first."""
        rng = self.rng
        params = {}
        for p, dflt in spec.items():
            if p in skip:
                continue
            if p == "path":
                self.nfile += 1
                params[p] = f"out_{self.nfile}.txt"
                continue
            choices = ["node", "node", "ctx0"]
            if dflt is not None:
                choices += ["default", "default", "node_ctx0"]
            if p not in self.live:
                choices.append("node_ctx0")     # configured on the node AND a same-named key in the initial context (node wins)
            if self.dtype == "float" and len(self.nodes) < self.max_nodes - 1:
                choices.append("probe")
            if p in self.live and self.live[p] == "num":
                choices += ["live", "live"]
            c = rng.choice(choices)
            if name == "SvCaseOp" and rng.random() < 0.6:
                c = "ctx0"     # both case-variant keys required from the initial context
            if c == "node":
                params[p] = self.val()
                if self.allow_nonfinite and name in ("SvAdd", "SvAddDefault", "SvAffine", "SvCaseOp") and rng.random() < 0.04:
                    params[p] = float("inf") if rng.random() < 0.7 else float("-inf")
            elif c == "node_ctx0":
                params[p] = self.val()
                if p not in self.live:
                    self.ctx0[p] = self.val()
                    self.live[p] = "num"
            elif c == "ctx0":
                if p not in self.live:
                    self.ctx0[p] = self.val()
                    self.live[p] = "num"
                    # NB: earlier nodes were emitted before this key existed in ctx0; the key
                    # is in the initial context for them too -> recompute below (finalize)
            elif c == "probe":
                pk = {"processor": "SvProbe", "context_key": p}
                self.emit(pk, name="SvProbe", kind="probe", out=None, creates=[p], params_spec={})
            # default / live: nothing to add
        if params:
            node["parameters"] = params

    # -- node choices ----------------------------------------------------
    def add_source(self):
        rng = self.rng
        r = rng.random()
        if r < 0.12:
            self.init_data = self.val()
            self.dtype = "float"
            return
        if self.allow_sweep and r < 0.30:
            self.add_sweep("SvSource")
            return
        name = rng.choice(["SvSource", "SvSource", "SvSourceDefault", "SvPayloadSource"])
        spec = CATALOG[name]
        node = {"processor": name}
        self.place_params(name, spec["params"], node)
        self.emit(node, name=name, kind=spec["kind"], out="float", creates=spec.get("creates", ()),
                  params_spec=spec["params"])

    def add_sweep(self, element: str):
        rng = self.rng
        spec = CATALOG[element]
        pnames = [p for p in spec["params"] if p != "path"]
        nvars = rng.choice([1, 1, 2]) if pnames else 1
        vars_: dict[str, Any] = {}
        vnames = []
        fromctx = []
        length = rng.randint(1, 3)
        mode = rng.choice(["combinatorial", "by_position"])
        broadcast = mode == "by_position" and rng.random() < 0.3
        if pnames and rng.random() < 0.06:
            # a long collection (its textual form runs to several hundred characters; two of them differ only near the end)
            length, nvars, mode, broadcast = rng.choice([18, 24]), 1, "by_position", False
        for _ in range(nvars):
            self.nvar += 1
            v = f"sv{self.nvar}"
            vnames.append(v)
            n = length if (mode == "by_position" and not broadcast) else rng.randint(1, 3)
            r = rng.random()
            if r < 0.4:
                lo = self.val() or 0.625      # range bounds stay positive (log scale requires it)
                vars_[v] = {"lo": lo, "hi": lo + rng.randint(1, 4), "steps": n}
                if rng.random() < 0.3:
                    vars_[v]["endpoint"] = False
                if rng.random() < 0.2:
                    vars_[v]["scale"] = "log"
            elif r < 0.8 or not self.allow_ctx:
                if rng.random() < 0.35:
                    vars_[v] = {"values": [float(x) for x in rng.sample(range(1, 40), n)]}     # integral floats (type-variant twins)
                else:
                    vars_[v] = {"values": [self.val() for _ in range(n)]}
            else:
                key = self.fresh_key("seq")
                self.ctx0[key] = [self.val() for _ in range(n)]
                self.live[key] = "list"
                vars_[v] = {"from_context": key}
                fromctx.append(key)
        swept_params = {}
        targets = pnames[:]
        rng.shuffle(targets)
        targets = targets[: max(1, min(len(targets), nvars))] if targets else []
        if rng.random() < 0.12:
            targets = []          # a sweep with variables only (no parameter expressions) is legal
        for i, p in enumerate(targets):
            if len(vnames) >= 2 and rng.random() < 0.4:
                e = rng.choice(EXPRS_2).format(a=vnames[0], b=vnames[1])
            else:
                e = rng.choice(EXPRS_1).format(v=vnames[i % len(vnames)])
            swept_params[p] = e
        sweep = {"parameters": swept_params, "variables": vars_}
        if mode != "combinatorial" or rng.random() < 0.5:
            sweep["mode"] = mode
        if broadcast:
            sweep["broadcast"] = True
        node: dict[str, Any] = {"processor": element, "derive": {"parameter_sweep": sweep}}
        kind = spec["kind"]
        creates = []
        if kind == "probe":
            ck = self.fresh_key("pk")
            node["context_key"] = ck
            creates.append(ck)
            out = None
        else:
            sweep["collection"] = "FloatDataCollection"
            creates += [f"{v}_values" for v in vnames]
            out = "coll"
        self.place_params(element, spec["params"], node, skip=set(swept_params))
        self.emit(node, name=element, kind="sweep_" + kind, out=out, creates=creates + list(spec.get("creates", ())),
                  params_spec=spec["params"], swept=set(swept_params), generated=True, fromctx=fromctx)

    def add_ctx_node(self) -> bool:
        rng = self.rng
        nums = [k for k, t in self.live.items() if t == "num"]
        r = rng.random()
        if r < 0.3 and nums:
            src = rng.choice(nums)
            dst = rng.choice(["addend", "factor", "offset", "gain", self.fresh_key("rn")])
            if dst in self.live:
                dst = self.fresh_key("rn")
            self.emit({"processor": f"rename:{src}:{dst}"}, name=f"rename:{src}:{dst}", kind="ctx", out=None,
                      creates=[dst], removes=[src], params_spec={}, generated=True)
            return True
        if r < 0.5 and nums:
            k = rng.choice(nums)
            self.emit({"processor": f"delete:{k}"}, name=f"delete:{k}", kind="ctx", out=None, removes=[k],
                      params_spec={}, generated=True)
            return True
        if r < 0.7 and nums:
            k = rng.choice(nums)
            out = self.fresh_key("tp")
            self.emit({"processor": f'template:"t_{{{k}}}.txt":{out}'}, name=f"template:{out}", kind="ctx",
                      out=None, creates=[out], params_spec={}, generated=True)
            self.live[out] = "str"
            return True
        if "comb_out" not in self.live:
            node = {"processor": "SvCtxCombine"}
            spec = CATALOG["SvCtxCombine"]
            self.place_params("SvCtxCombine", spec["params"], node)
            self.emit(node, name="SvCtxCombine", kind="ctx", out=None, creates=["comb_out"], params_spec=spec["params"])
            return True
        return False

    def add_node(self):
        rng = self.rng
        d = self.dtype
        if self.allow_ctx and rng.random() < 0.18 and self.add_ctx_node():
            return
        if d == "text":
            self._plain("SvTextLen")
            return
        if d == "stream":
            self._plain("SvStreamSum")
            return
        if d == "wrong":
            if not (self.allow_ctx and self.add_ctx_node()):
                self.stop = True          # only context-only nodes may follow a node whose output contradicts its declaration
            return
        if d == "coll":
            r = rng.random()
            if self.allow_slicer and r < 0.35:
                inner = rng.choice(["SvAdd", "SvMulDefault", "SvAddDefault"])
                spec = CATALOG[inner]
                node = {"processor": f"slice:{inner}:FloatDataCollection"}
                self.place_params(inner, spec["params"], node)
                self.emit(node, name=inner, kind="slice_op", out="coll", params_spec=spec["params"], generated=True)
            elif self.allow_slicer and r < 0.5:
                ck = self.fresh_key("pk")
                node = {"processor": "slice:SvProbe:FloatDataCollection", "context_key": ck}
                self.emit(node, name="SvProbe", kind="slice_probe", out=None, creates=[ck], params_spec={}, generated=True)
                self.live[ck] = "list"
            elif r < 0.62:
                self._plain("SvBumpLast")       # output = input except for the last item
            else:
                self._plain("SvCollSum")
            return
        # float
        r = rng.random()
        if r < 0.50:
            self._plain(rng.choice(FLOAT_OPS))
        elif r < 0.66:
            name = rng.choice(PROBES)
            spec = CATALOG[name]
            ck = rng.choice(["addend", "factor", "offset", "bias", self.fresh_key("pk"), self.fresh_key("pk")])
            if rng.random() < 0.08:
                name, spec, ck = "SvProbeNone", CATALOG["SvProbeNone"], self.fresh_key("nk")     # context value None
            node = {"processor": name, "context_key": ck}
            self.place_params(name, spec["params"], node)
            self.emit(node, name=name, kind="probe", out=None, creates=[ck], params_spec=spec["params"])
        elif r < 0.76:
            name = "SvFileSink" if (self.allow_file_sink and rng.random() < 0.6) else rng.choice(["SvNullSink", "SvPayloadSink"])
            self._plain(name)
        elif r < 0.80:
            self._plain("SvToText")
        elif r < 0.84 and self.allow_stream:
            self._plain("SvToStream")
        elif r < 0.86 and self.allow_stream:
            which = rng.choice(["SvCtxWriterOpaque", "SvCtxWriterArray", "SvCtxWriterArray", "SvCtxWriterMixedKeys"])
            self._plain(which)
            if which == "SvCtxWriterArray" and rng.random() < 0.6 and len(self.nodes) < self.max_nodes:
                self._plain("SvCtxWriterArray")      # the same key rebound to another array object
        elif r < 0.875 and self.allow_stream:
            self._plain("SvWrongOutput")
        elif self.allow_sweep and r < 0.95:
            self.add_sweep(rng.choice(["SvMul", "SvAffine", "SvAdd", "SvProbeParam", "SvProbeDefault"]))
        else:
            self._plain(rng.choice(FLOAT_OPS))

    def _plain(self, name: str):
        spec = CATALOG[name]
        node = {"processor": name}
        self.place_params(name, spec["params"], node)
        self.emit(node, name=name, kind=spec["kind"], out=spec["o"], creates=spec.get("creates", ()),
                  params_spec=spec["params"])


def gen_pipeline(rng: random.Random, **opts) -> dict:
    """Return {'nodes', 'context', 'init_data', 'truth'} for a pipeline valid by construction."""
    for _ in range(50):
        g = _G(rng, **opts)
        n = rng.randint(1, g.max_nodes)
        g.add_source()
        guard = 0
        while len(g.nodes) < n and guard < 40 and not g.stop:
            guard += 1
            g.add_node()
        if opts.get("allow_nonfinite", True) and rng.random() < 0.06:
            g.ctx0["nan_key"] = float("nan")       # an untouched NaN in the context (NaN != NaN)
        if rng.random() < 0.05:
            g.ctx0["int_key"] = rng.randint(1, 9)  # an int next to all the floats
        if not g.nodes:
            continue
        sc = {"nodes": g.nodes, "context": g.ctx0, "init_data": g.init_data}
        sc["truth"] = recompute_truth(sc)
        if sc["truth"] is None:
            continue
        if any(t["missing"] for t in sc["truth"]):
            continue
        return sc
    raise RuntimeError("generator failed to build a valid pipeline")


def _parse_node(node: dict) -> dict:
    """Static description of a generated node config (name, kind, spec, creates, removes)."""
    proc = node["processor"]
    sweep = (node.get("derive") or {}).get("parameter_sweep")
    if proc.startswith("rename:"):
        _, src, dst = proc.split(":")
        return dict(name=proc, kind="ctx", params={}, creates=[dst], removes=[src], needs=[src], out=None, generated=True)
    if proc.startswith("delete:"):
        k = proc.split(":", 1)[1]
        return dict(name=proc, kind="ctx", params={}, creates=[], removes=[k], needs=[k], out=None, generated=True)
    if proc.startswith("template:"):
        import re
        m = re.match(r'^template:"(.*)":(.+)$', proc)
        keys = re.findall(r"\{(\w+)\}", m.group(1))
        return dict(name="template:" + m.group(2), kind="ctx", params={}, creates=[m.group(2)], removes=[], needs=keys,
                    out=None, generated=True, created_type="str")
    if proc.startswith("slice:"):
        _, inner, _coll = proc.split(":")
        spec = CATALOG[inner]
        if spec["kind"] == "probe":
            return dict(name=inner, kind="slice_probe", params=spec["params"], creates=[node["context_key"]] if node.get("context_key") else [],
                        removes=[], needs=[], out=None, i="coll", generated=True, created_type="list")
        return dict(name=inner, kind="slice_op", params=spec["params"], creates=[], removes=[], needs=[], out="coll", i="coll", generated=True)
    spec = CATALOG.get(proc)
    if spec is None:
        return dict(name=proc, kind="unknown", params={}, creates=[], removes=[], needs=[], out=None, generated=False)
    if sweep:
        swept = set(sweep.get("parameters", {}))
        vnames = list(sweep.get("variables", {}))
        fromctx = [v["from_context"] for v in sweep["variables"].values() if isinstance(v, dict) and "from_context" in v]
        creates = []
        if spec["kind"] == "probe":
            if node.get("context_key"):
                creates.append(node["context_key"])
            out = None
        else:
            creates += [f"{v}_values" for v in vnames]
            out = "coll"
        return dict(name=proc, kind="sweep_" + spec["kind"], params=spec["params"], creates=creates + list(spec.get("creates", ())),
                    removes=[], needs=fromctx, out=out, i=spec["i"], swept=swept, generated=True, created_type="list" if spec["kind"] == "probe" else "num")
    creates = list(spec.get("creates", ()))
    if spec["kind"] == "probe" and node.get("context_key"):
        creates.append(node["context_key"])
    return dict(name=proc, kind=spec["kind"], params=spec["params"], creates=creates, removes=[], needs=[],
                out=spec["o"] if spec["kind"] != "probe" else None, i=spec["i"], generated=False)


def recompute_truth(sc: dict) -> list[dict] | None:
    """Forward bookkeeping over the final config: channels per parameter, live keys, data type."""
    live = {k: ("list" if isinstance(v, list) else "str" if isinstance(v, str) else "num") for k, v in sc["context"].items()}
    dtype = "float" if sc.get("init_data") is not None else "none"
    truth = []
    for node in sc["nodes"]:
        d = _parse_node(node)
        cfgp = node.get("parameters", {}) or {}
        chans, missing = {}, []
        for p, dflt in d["params"].items():
            if p in d.get("swept", ()):
                continue
            if p in cfgp:
                chans[p] = "node"
            elif p in live:
                chans[p] = "context"
            elif dflt is not None:
                chans[p] = "default"
            else:
                missing.append(p)
        for k in d["needs"]:
            if k not in live:
                missing.append(k)
        type_ok = d.get("i") in (None, dtype)
        truth.append({"name": d["name"], "kind": d["kind"], "channels": chans, "missing": missing,
                      "creates": sorted(d["creates"]), "removes": sorted(d["removes"]), "in": dtype,
                      "type_ok": type_ok, "generated": d["generated"], "swept": sorted(d.get("swept", ())),
                      "live_before": sorted(live)})
        for k in d["removes"]:
            live.pop(k, None)
        for k in d["creates"]:
            live[k] = d.get("created_type", "num")
        if d["out"] is not None:
            dtype = d["out"]
        truth[-1]["out"] = dtype
    return truth


# ---------------------------------------------------------------- failure mutations
FAIL_KINDS_CONFIG = ["unresolvable", "unresolvable_two_keys", "write_then_fail", "type_gate", "undeclared_op", "undeclared_ctx", "unknown_param", "probe_no_key"]
FAIL_KINDS_FAULT = ["leaf_exception", "exec_pre_exception", "exec_post_exception", "abort", "kbint",
                    "leaf_bare_keyerror", "leaf_keyerror_subclass", "exec_nonstr_args", "transport_fault"]


def applicable_failures(sc: dict) -> list[tuple[str, int]]:
    """All (kind, node index) pairs that can be applied to this base scenario."""
    out = []
    truth = sc["truth"]
    n = len(sc["nodes"])
    for k in range(n):
        t = truth[k]
        node = sc["nodes"][k]
        for kind in FAIL_KINDS_FAULT:
            if kind.startswith("leaf_") and (t["generated"] and t["kind"] == "ctx"):
                continue  # repo-generated context processors have no harness leaf
            out.append((kind, k))
        # unresolvable: a node-placed parameter without default whose key is not live
        for p, ch in t["channels"].items():
            if ch == "node" and _default_of(t, p) is None and p not in t["live_before"]:
                out.append(("unresolvable", k))
                break
        out.append(("unknown_param", k)) if t["kind"] in ("source", "op", "probe", "sink", "psource") and not t["generated"] else None
        if t["kind"] == "probe":
            out.append(("probe_no_key", k))
    for k in range(n + 1):
        dt = truth[k - 1]["out"] if k > 0 else ("float" if sc.get("init_data") is not None else "none")
        if dt == "float":
            out.append(("write_then_fail", k))
            out.append(("type_gate", k))
            out.append(("undeclared_op", k))
            live = set(truth[k]["live_before"]) if k < n else (set(truth[-1]["live_before"]) | set(truth[-1]["creates"])) - set(truth[-1]["removes"])
            if "Gain" not in live and "gain" not in live:
                out.append(("unresolvable_two_keys", k))
        if k > 0 or sc.get("init_data") is not None:
            out.append(("undeclared_ctx", k))
    return out


def _default_of(t: dict, p: str):
    spec = CATALOG.get(t["name"])
    return spec["params"].get(p) if spec else None


def apply_failure(sc: dict, kind: str, k: int) -> dict:
    """Return a new scenario with failure `kind` at node index k and expectation fields."""
    s = copy.deepcopy(sc)
    s["fail"] = {"kind": kind, "node": k}
    s["faults"] = []
    if kind in FAIL_KINDS_FAULT:
        site = {"leaf_exception": "leaf", "exec_pre_exception": "executor_pre", "exec_post_exception": "executor_post",
                "abort": "leaf", "kbint": "executor_pre", "leaf_bare_keyerror": "leaf", "leaf_keyerror_subclass": "leaf",
                "exec_nonstr_args": "executor_pre", "transport_fault": "transport_publish"}[kind]
        fk = {"abort": "abort", "kbint": "kbint"}.get(kind, "exception")
        variant = {"leaf_bare_keyerror": "bare_keyerror", "leaf_keyerror_subclass": "keyerror_subclass",
                   "exec_nonstr_args": "nonstr_args"}.get(kind, "simfault")
        t = sc["truth"][k]
        if kind == "abort" and t["generated"] and t["kind"] == "ctx":
            site = "executor_pre"
        s["faults"] = [{"site": site, "kind": fk, "node": k, "exc": variant}]
        s["fail"]["expect_exc"] = {"exception": {"simfault": "SimFault", "bare_keyerror": "KeyError", "keyerror_subclass": "SimKeyError",
                                                 "nonstr_args": "ValueError"}[variant], "abort": "SimAbort", "kbint": "KeyboardInterrupt"}[fk]
        s["fail"]["after_node"] = kind == "transport_fault"
        s["fail"]["expect_sers"] = k + 1
        s["fail"]["injected"] = True
        s["fail"]["base_exception"] = fk != "exception"
    elif kind == "unresolvable":
        t = sc["truth"][k]
        removed = []
        for p, ch in t["channels"].items():
            if ch == "node" and _default_of(t, p) is None and p not in t["live_before"]:
                del s["nodes"][k]["parameters"][p]        # every such parameter: several keys may be missing at once
                removed.append(p)
        if not s["nodes"][k].get("parameters"):
            s["nodes"][k].pop("parameters", None)
        s["fail"]["param"] = removed[0] if removed else None
        s["fail"]["params"] = removed
        s["fail"]["expect_exc"] = "KeyError"
        s["fail"]["expect_sers"] = k + 1
    elif kind == "type_gate":
        s["nodes"].insert(k, {"processor": "SvTextLen"})
        s["fail"]["expect_exc"] = "TypeError"
        s["fail"]["expect_sers"] = k + 1
    elif kind == "write_then_fail":
        s["nodes"].insert(k, {"processor": "SvWriteThenFail"})      # the node changes the context and then raises
        s["fail"]["expect_exc"] = "SimFault"
        s["fail"]["expect_sers"] = k + 1
    elif kind == "unresolvable_two_keys":
        s["nodes"].insert(k, {"processor": "SvCaseOp"})       # needs Gain and gain, neither is available: two missing keys
        s["fail"]["expect_exc"] = "KeyError"
        s["fail"]["expect_sers"] = k + 1
        s["fail"]["params"] = ["Gain", "gain"]
    elif kind == "undeclared_op":
        s["nodes"].insert(k, {"processor": "SvBadWriter"})
        s["fail"]["expect_exc"] = "KeyError"
        s["fail"]["expect_sers"] = k + 1
    elif kind == "undeclared_ctx":
        s["nodes"].insert(k, {"processor": "SvBadCtxProc"})
        s["fail"]["expect_exc"] = "KeyError"
        s["fail"]["expect_sers"] = k + 1
    elif kind == "unknown_param":
        s["nodes"][k].setdefault("parameters", {})["bogus_param"] = 1.0
        s["fail"]["expect_exc"] = "InvalidNodeParameterError"
        s["fail"]["expect_sers"] = 0
        s["fail"]["construction"] = True
    elif kind == "probe_no_key":
        s["nodes"][k].pop("context_key", None)
        s["fail"]["expect_exc"] = "PipelineConfigurationError"
        s["fail"]["expect_sers"] = 0
        s["fail"]["construction"] = True
    else:
        raise ValueError(kind)
    s.pop("truth", None)
    return s


# ---------------------------------------------------------------- run spaces
def gen_run_space(rng: random.Random, keys: list[str], *, allow_source=True, max_runs_cap=6, exotic=False) -> dict:
    """Generate a run_space block over the given context keys (each key used at most once)."""
    keys = list(keys)
    rng.shuffle(keys)
    extra = [f"rs{i}" for i in range(1, 4)]
    pool = keys + extra[: rng.randint(0, 2)]
    nblocks = rng.randint(1, min(3, max(1, len(pool))))
    blocks = []
    files: dict[str, str] = {}
    combine = rng.choice(["combinatorial", "by_position"])
    common_len = rng.randint(1, 3)
    vals = iter(range(1, 10_000))

    def v():
        return next(vals) * 0.5 + 100.0

    per_block = [[] for _ in range(nblocks)]
    for i, k in enumerate(pool):
        per_block[i % nblocks].append(k)
    total = 1
    for bi, bkeys in enumerate(per_block):
        if not bkeys:
            bkeys = [f"rsx{bi}"]
        mode = rng.choice(["combinatorial", "by_position"])
        if combine == "by_position":
            # all blocks must yield common_len runs
            mode = "by_position"
            n = common_len
            ctx = {k: [v() for _ in range(n)] for k in bkeys}
            size = n
        elif mode == "by_position":
            n = rng.randint(1, 3)
            ctx = {k: [v() for _ in range(n)] for k in bkeys}
            size = n
        else:
            ctx = {}
            size = 1
            for k in bkeys:
                n = rng.randint(1, 2)
                ctx[k] = [v() for _ in range(n)]
                size *= n
        if combine == "combinatorial" and total * size > max_runs_cap:
            # shrink this block to one run
            ctx = {k: vs[:1] for k, vs in ctx.items()}
            size = 1
        total = total * size if combine == "combinatorial" else size
        block: dict[str, Any] = {"mode": mode, "context": ctx}
        if allow_source and rng.random() < 0.3 and len(ctx) >= 1:
            # move one or two keys into a source file (rows-as-runs); extra columns are dropped through `select`
            same_len = len({len(v) for v in ctx.values()}) == 1
            nmove = 2 if (len(ctx) >= 2 and same_len and rng.random() < 0.6) else 1
            moved = sorted(ctx)[:nmove]
            cols = {}
            for k in moved:
                cols[k if rng.random() < 0.5 else f"col_{k}"] = (k, ctx.pop(k))
            n = len(next(iter(cols.values()))[1])
            fmt = rng.choice(["csv", "json"])
            fname = f"src_{bi}.{fmt}"
            names = list(cols)
            extra = rng.random() < 0.6
            all_names = names + (["unused_col"] if extra else [])
            rows = [{c: (cols[c][1][i] if c in cols else float(i)) for c in all_names} for i in range(n)]
            if fmt == "csv":
                files[fname] = ",".join(all_names) + "\n" + "".join(",".join(str(r[c]) for c in all_names) + "\n" for r in rows)
            else:
                import json as _j
                files[fname] = _j.dumps(rows)
            src: dict[str, Any] = {"format": fmt, "path": fname}
            if extra or rng.random() < 0.5:
                sel = list(names)
                rng.shuffle(sel)
                src["select"] = sel
            ren = {c: k for c, (k, _v) in cols.items() if c != k}
            if ren:
                src["rename"] = ren
            if mode == "combinatorial":
                src["mode"] = "by_position" if nmove == 2 else "combinatorial"
            block["source"] = src
            if not ctx:
                block.pop("context")
        if exotic:
            # keys no node consumes may carry non-ASCII text, and a null cell in a row other than the first
            for k in sorted(block.get("context") or {}):
                if k in keys:
                    continue
                vs = block["context"][k]
                r = rng.random()
                if r < 0.35:
                    block["context"][k] = [rng.choice(["\u03b1-\u03b2", "na\u00efve", "\u65e5\u672c", "caf\u00e9 \u2615"]) + str(i) for i in range(len(vs))]
                elif r < 0.55 and len(vs) >= 2:
                    j = rng.randrange(1, len(vs))
                    block["context"][k] = vs[:j] + [None] + vs[j + 1:]
                elif r < 0.75:
                    # mapping-valued cells with INTEGER keys whose numeric and string orders differ (legal YAML). JSON cannot
                    # hold integer keys, so the scenario stores them tagged; `decode_int_keys` turns them into real mappings
                    a, b = rng.choice([(9, 10), (2, 10), (5, 12), (-1, 1), (99, 100)])
                    block["context"][k] = [{"__ik__": [[a, float(i)], [b, float(i) + 0.5]]} for i in range(len(vs))]
        blocks.append(block)
    rs: dict[str, Any] = {"blocks": blocks}
    if combine != "combinatorial" or rng.random() < 0.5:
        rs["combine"] = combine
    if rng.random() < 0.3:
        rs["max_runs"] = rng.choice([50, 100, 1000])
    return {"run_space": rs, "files": files}


def decode_int_keys(obj):
    """Scenario form -> runtime form: {"__ik__": [[k, v], ...]} becomes the mapping {k: v, ...} (integer keys survive JSON this way)."""
    if isinstance(obj, dict):
        if set(obj) == {"__ik__"}:
            return {k: decode_int_keys(v) for k, v in obj["__ik__"]}
        return {k: decode_int_keys(v) for k, v in obj.items()}
    if isinstance(obj, list):
        return [decode_int_keys(v) for v in obj]
    return obj
