"""SimWorld: one simulated run's clock, uuid stream, sandbox, file seam, event log and fault plan."""
from __future__ import annotations

import builtins
import copy
import hashlib
import io
import json
import os
import shutil
import time as _time
from typing import Any

from . import seams

from . import scratch_root as _scratch_root
SCRATCH_ROOT = _scratch_root()


class SimFault(Exception):
    """Injected processor/executor exception; identity is checked at the caller."""


class SimKeyError(KeyError):
    """Injected domain error derived from KeyError, raised WITHOUT arguments."""


class SimAbort(BaseException):
    """Injected KeyboardInterrupt-class abort."""


class _TrackedFile:
    """Proxy around a real sandbox file; records writes in global emission order."""

    def __init__(self, world: "SimWorld", real, rel: str, mode: str):
        self._w = world
        self._f = real
        self._rel = rel
        self._mode = mode
        self._closed = False
        world._handles.append(self)
        world.log("fs.open", rel, mode)

    def write(self, s):
        self._w._emit(self._rel, s)
        return self._f.write(s)

    def writelines(self, lines):
        for ln in lines:
            self.write(ln)

    def flush(self):
        self._w.fs_flushes += 1
        return self._f.flush()

    def close(self):
        if not self._closed:
            self._closed = True
            self._w.log("fs.close", self._rel)
        return self._f.close()

    @property
    def closed(self):
        return self._f.closed

    def __enter__(self):
        return self

    def __exit__(self, *a):
        self.close()
        return False

    def __iter__(self):
        return iter(self._f)

    def __getattr__(self, name):
        return getattr(self._f, name)


_REAL_OPEN = builtins.open
_REAL_IO_OPEN = io.open
WORLD: "SimWorld | None" = None


def _tracked_open(file, mode="r", *args, **kwargs):
    w = WORLD
    real = _REAL_IO_OPEN(file, mode, *args, **kwargs)
    if w is None or not w.fs_active or w.quiet:
        return real
    if not any(c in mode for c in "wax+"):
        return real
    try:
        p = os.path.abspath(os.fspath(file))
    except TypeError:
        return real
    if not p.startswith(w.sandbox + os.sep):
        return real
    return _TrackedFile(w, real, os.path.relpath(p, w.sandbox), mode)


def install_fs_seam() -> None:
    builtins.open = _tracked_open
    io.open = _tracked_open


class SimWorld:
    def __init__(self, seed: int, *, tz: str = "UTC", lane: str = "x",
                 clock_seed: int | None = None, uuid_seed: int | None = None,
                 clock_base: float | None = None, const_step_ms: int | None = None,
                 make_sandbox: bool = True):
        global WORLD
        self.seed = seed
        self.tz = tz
        self.clock = seams.SimClock(seed if clock_seed is None else clock_seed,
                                    base=clock_base, const_step_ms=const_step_ms)
        self.uuids = seams.SimUUID((seed ^ 0x5EED) if uuid_seed is None else uuid_seed)
        seams.set_clock(self.clock)
        seams.set_uuids(self.uuids)
        os.environ["TZ"] = tz
        _time.tzset()
        self.events: list[tuple] = []
        self.seq = 0
        self.emissions: list[tuple[int, str, str]] = []  # (seq, relpath, text)
        self._handles: list[_TrackedFile] = []
        self.fs_active = True
        self.fs_flushes = 0
        self.faults: list[dict] = []
        self.faults_fired: list[dict] = []
        self.cur_node = -1
        self.cur_run = -1
        self.invocations: list[dict] = []   # leaf log
        self.exec_log: list[dict] = []      # executor log
        self.run_inputs: list[dict] = []    # initial payload of every run (orchestrator seam)
        self.remote_exec = False            # RecordingExecutor emulates an out-of-process executor (fresh result objects)
        self.cur_ctx_obj = None
        self.probes: dict[str, int] = {}
        self.sandbox = ""
        self._old_cwd = None
        if make_sandbox:
            # deterministic path (absolute paths leak into run-space input URIs and ids); a numeric suffix only on collision
            os.makedirs(os.path.join(SCRATCH_ROOT, lane), exist_ok=True)
            k = 0
            while True:
                self.sandbox = os.path.join(SCRATCH_ROOT, lane, f"s{seed & 0xFFFFFFFFFFFF:x}" + (f"_{k}" if k else ""))
                try:
                    os.mkdir(self.sandbox)
                    break
                except FileExistsError:
                    k += 1
                    if k > 50:
                        raise
            self._old_cwd = os.getcwd()
            os.chdir(self.sandbox)
        WORLD = self

    # -- logging (never draws, never reads a clock) --------------------
    def log(self, *ev) -> None:
        self.seq += 1
        self.events.append((self.seq,) + tuple(ev))

    def probe(self, name: str, n: int = 1) -> None:
        self.probes[name] = self.probes.get(name, 0) + n

    def _emit(self, rel: str, text) -> None:
        self.seq += 1
        if isinstance(text, bytes):
            text = text.decode("utf-8", "replace")
        self.emissions.append((self.seq, rel, text))

    # -- runs / faults --------------------------------------------------
    def begin_run(self, label: Any = None) -> None:
        self.cur_run += 1
        self.cur_node = -1
        self.log("run.begin", self.cur_run, label)

    def set_faults(self, faults: list[dict]) -> None:
        self.faults = [dict(f) for f in faults]

    def _match(self, site: str) -> dict | None:
        for f in self.faults:
            if f.get("_done"):
                continue
            if f.get("site") != site:
                continue
            if f.get("node") is not None and f["node"] != self.cur_node:
                continue
            if f.get("run") is not None and f["run"] != self.cur_run:
                continue
            return f
        return None

    def fire(self, site: str) -> None:
        f = self._match(site)
        if f is None:
            return
        f["_done"] = True
        kind = f["kind"]
        self.faults_fired.append({"site": site, "kind": kind, "node": self.cur_node, "run": self.cur_run})
        self.log("fault", site, kind, self.cur_node, self.cur_run)
        if kind == "exception":
            variant = f.get("exc", "simfault")
            if variant == "bare_keyerror":
                exc = KeyError()
            elif variant == "keyerror_subclass":
                exc = SimKeyError()
            elif variant == "nonstr_args":
                exc = ValueError(("injected", self.cur_node, 1.5))
            else:
                exc = SimFault(f"injected fault at node {self.cur_node} site {site}")
            self.last_injected = exc
            raise exc
        if kind == "abort":
            exc = SimAbort(f"injected abort at node {self.cur_node}")
            self.last_injected = exc
            raise exc
        if kind == "sysexit":
            exc = SystemExit(f"injected sys.exit at node {self.cur_node}")      # a processor calling sys.exit("...")
            self.last_injected = exc
            raise exc
        if kind == "kbint":
            exc = KeyboardInterrupt()
            self.last_injected = exc
            raise exc
        if kind == "stall":
            self.clock.advance(float(f.get("seconds", 60.0)))
            return
        raise RuntimeError(f"unknown fault kind {kind}")

    last_injected: BaseException | None = None
    stall_hook = None  # thread engine: block the task in virtual time instead of advancing the clock

    def stall(self, seconds: float) -> None:
        self.log("stall", seconds)
        self.faults_fired.append({"site": "leaf", "kind": "stall", "node": self.cur_node, "run": self.cur_run})
        if self.stall_hook is not None:
            self.stall_hook(seconds)
        else:
            self.clock.advance(seconds)

    quiet = False  # C18: record nothing per invocation

    def on_invoke(self, cls_name: str, kwargs: dict, data: Any = None) -> None:
        if self.quiet:
            return
        rec = {"run": self.cur_run, "node": self.cur_node, "cls": cls_name,
               "kwargs": {k: _jsonable(v) for k, v in sorted(kwargs.items())},
               "data": _data_repr(data)}
        self.invocations.append(rec)
        self.log("leaf", self.cur_run, self.cur_node, cls_name, json.dumps(rec["kwargs"], sort_keys=True))
        self.fire("leaf")

    # -- teardown -------------------------------------------------------
    def open_handles(self) -> list[str]:
        return [h._rel for h in self._handles if not h._f.closed]

    def stream_text(self) -> str:
        return "".join(t for _, _, t in self.emissions)

    def emitted_by_file(self) -> dict[str, str]:
        out: dict[str, str] = {}
        for _, rel, t in self.emissions:
            out[rel] = out.get(rel, "") + t
        return out

    def digest(self) -> str:
        h = hashlib.sha256()
        for ev in self.events:
            h.update(repr(ev).encode())
        for e in self.emissions:
            h.update(repr(e).encode())
        return h.hexdigest()[:16]

    def sandbox_tree(self) -> list[str]:
        out = []
        for root, dirs, files in os.walk(self.sandbox):
            dirs.sort()
            for f in sorted(files):
                out.append(os.path.relpath(os.path.join(root, f), self.sandbox))
        return sorted(out)

    def close(self) -> None:
        global WORLD
        self.fs_active = False
        for h in self._handles:
            try:
                if not h._f.closed:
                    h._f.close()
            except Exception:
                pass
        if self._old_cwd is not None:
            try:
                os.chdir(self._old_cwd)
            except Exception:
                os.chdir("/")
        if self.sandbox and os.path.isdir(self.sandbox):
            shutil.rmtree(self.sandbox, ignore_errors=True)
        if WORLD is self:
            WORLD = None


def _jsonable(v: Any) -> Any:
    if hasattr(v, "tolist") and hasattr(v, "dtype") and getattr(v, "ndim", 0) > 0:
        # numpy values: repr() is lossy (8 significant digits), the element list is exact
        try:
            return {"__ndarray__": str(v.dtype), "values": _jsonable(v.tolist())}
        except Exception:
            pass
    if isinstance(v, dict) and not all(isinstance(k, str) for k in v):
        return {f"{type(k).__name__}:{k!r}": _jsonable(x) for k, x in v.items()}      # keys of mixed types are not sortable
    try:
        json.dumps(v)
        return v
    except Exception:
        try:
            return repr(v)
        except Exception:
            return f"<unreprable {type(v).__name__}>"


def _data_repr(d: Any) -> Any:
    if d is None:
        return None
    inner = getattr(d, "data", None)
    if hasattr(inner, "__next__"):
        return [type(d).__name__, "<lazy>"]
    if isinstance(inner, list):
        return [type(d).__name__, [_data_repr(x) for x in inner]]
    return [type(d).__name__, _jsonable(inner)]


def ctx_snapshot(ctx: Any) -> dict:
    try:
        d = ctx.to_dict()
    except Exception:
        d = dict(ctx) if isinstance(ctx, dict) else {}
    return copy.deepcopy({k: _jsonable(v) for k, v in d.items()})
