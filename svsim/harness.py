"""Shared execution helpers: process setup, running one pipeline scenario inside a SimWorld,
trace parsing, schema validation, RFC 3339 parsing."""
from __future__ import annotations

import copy
import json
import os
import re
import sys
from typing import Any

_SETUP_DONE = False
REPO = os.environ.get("SVSIM_REPO", "/repo")


def setup_process() -> None:
    """Install seams, then import semantiva from the current /repo tree and register the library."""
    global _SETUP_DONE
    if _SETUP_DONE:
        return
    _SETUP_DONE = True
    os.environ.setdefault("OPENBLAS_NUM_THREADS", "1")
    os.environ.setdefault("OMP_NUM_THREADS", "1")
    os.environ.setdefault("MKL_NUM_THREADS", "1")
    for p in (REPO, os.path.dirname(os.path.dirname(os.path.abspath(__file__)))):
        if p not in sys.path:
            sys.path.insert(0, p)
    from . import seams, world
    seams.install()
    world.install_fs_seam()
    import logging
    logging.disable(logging.CRITICAL)  # harness never inspects log output; keeps runs fast
    import semantiva  # noqa: F401
    mod = sys.modules["semantiva"]
    if not os.path.abspath(mod.__file__).startswith(os.path.abspath(REPO) + os.sep):
        raise RuntimeError(f"semantiva imported from {mod.__file__}, expected under {REPO}")
    # Bootstrap the registry the way every documented entry point does (CLI / YAML loader call
    # apply_profile(RegistryProfile()) first), so that the lazily-loaded default modules are not
    # a hidden "history" input of the registry.fingerprint environment pin.
    from semantiva.registry import RegistryProfile, apply_profile
    apply_profile(RegistryProfile())
    from . import lib
    lib.register()
    # quiet logger used for all pipelines
    from semantiva.execution.component_registry import ExecutionComponentRegistry
    ExecutionComponentRegistry.initialize_defaults()


def quiet_logger():
    from semantiva.logger import Logger
    return Logger(level="ERROR")


def make_orchestrator(executor=None):
    from .executor import RecordingExecutor, SvOrchestrator
    return SvOrchestrator(executor or RecordingExecutor())


def make_pipeline(nodes: list[dict], *, trace=None, executor=None, orchestrator=None):
    from semantiva import Pipeline
    from .executor import SvTransport
    orch = orchestrator if orchestrator is not None else make_orchestrator(executor)
    return Pipeline(copy.deepcopy(nodes), logger=quiet_logger(), orchestrator=orch, trace=trace, transport=SvTransport())


def make_payload(sc: dict):
    from semantiva import Payload
    from semantiva.context_processors import ContextType
    from semantiva.data_types import NoDataType
    from semantiva.examples.test_utils import FloatDataType
    data = NoDataType() if sc.get("init_data") is None else FloatDataType(float(sc["init_data"]))
    return Payload(data, ContextType(copy.deepcopy(sc.get("context", {}))))


def make_trace(mode: str, detail: str, name: str = "trace"):
    from semantiva.trace.drivers.jsonl import JsonlTraceDriver
    if mode == "none":
        return None
    if mode == "file":
        return JsonlTraceDriver(f"{name}.ser.jsonl", detail=detail)
    if mode == "chardev":
        # the trace path names something that is not a regular file (here: a link to the null device, "trace discarded"); the
        # seam still records every line the driver writes
        if not os.path.lexists(f"{name}.ser.jsonl"):
            os.symlink(os.devnull, f"{name}.ser.jsonl")
        return JsonlTraceDriver(f"{name}.ser.jsonl", detail=detail)
    if mode == "cwd":
        return JsonlTraceDriver(None, detail=detail)     # default: timestamped file in the current directory
    if mode == "dotdir":
        os.makedirs(f"{name}.traces.v1", exist_ok=True)   # an EXISTING directory whose name contains dots
        return JsonlTraceDriver(f"{name}.traces.v1", detail=detail)
    return JsonlTraceDriver(f"{name}_dir", detail=detail)


def outcome_of(fn) -> dict:
    """Run fn() -> Payload; normalise to a comparable outcome dict."""
    from .world import _data_repr, ctx_snapshot
    try:
        res = fn()
    except BaseException as exc:  # noqa: BLE001 - we want aborts too
        return {"ok": False, "exc_type": type(exc).__name__, "exc_msg": str(exc), "exc": exc}
    return {"ok": True, "data": _data_repr(res.data), "context": ctx_snapshot(res.context), "payload": res}


def run_scenario(sc: dict, w, *, trace_mode="file", detail="hash", pipeline=None, name="trace", payload=None, orchestrator=None) -> dict:
    """Execute one pipeline scenario in world w. Returns dict with outcome, records, pipeline."""
    w.set_faults(sc.get("faults", []))
    first_emission = len(w.emissions)
    first_exec = len(w.exec_log)
    first_inv = len(w.invocations)
    first_handle = len(w._handles)
    w.clock.reset_readings()
    trace = make_trace(trace_mode, detail, name)
    p = pipeline
    if p is None:
        p = make_pipeline(sc["nodes"], trace=trace, orchestrator=orchestrator)
        # a canonical graph need not be a chain: skip connections (by node position) are appended to the edge list, after the
        # chain edges, so the in-edges of a fan-in node are not adjacent in the list
        cs = getattr(p, "canonical_spec", None)
        if sc.get("extra_edges") and isinstance(cs, dict) and isinstance(cs.get("edges"), list):
            ids = [nd.get("node_uuid") for nd in cs.get("nodes", [])]
            for i, j in sc["extra_edges"]:
                if i < len(ids) and j < len(ids):
                    cs["edges"].append({"source": ids[i], "target": ids[j]})
    else:
        p.trace = trace
    if payload is None:
        payload = make_payload(sc)
    pre_ctx = copy.deepcopy(sc.get("context", {}))
    out = outcome_of(lambda: p.process(payload))
    emissions = w.emissions[first_emission:]
    return {
        "outcome": out, "pipeline": p, "trace": trace, "pre_ctx": pre_ctx,
        "emissions": emissions, "exec_log": w.exec_log[first_exec:], "invocations": w.invocations[first_inv:],
        "readings": list(w.clock.readings),
        "open_handles": [h._rel for h in w._handles[first_handle:] if not h._f.closed],
    }


def parse_lines(emissions: list[tuple], only_jsonl: bool = True) -> tuple[list[dict], list[str]]:
    """Emission order -> list of JSON records (trace files only) + parse problems."""
    recs, problems = [], []
    bufs: dict[str, str] = {}
    for _seq, rel, text in emissions:
        if only_jsonl and not rel.endswith(".jsonl"):
            continue
        bufs[rel] = bufs.get(rel, "") + text
        while "\n" in bufs[rel]:
            line, bufs[rel] = bufs[rel].split("\n", 1)
            if not line.strip():
                continue
            try:
                r = json.loads(line)
                r["_file"] = rel
                recs.append(r)
            except Exception as e:  # noqa: BLE001
                problems.append(f"unparseable line in {rel}: {e}")
    for rel, rest in bufs.items():
        if rest.strip():
            problems.append(f"unterminated line in {rel}")
    return recs, problems


# ---------------------------------------------------------------- schemas
_VALIDATORS: dict[str, Any] | None = None


def validators() -> dict[str, Any]:
    """record_type -> jsonschema validator for the schema the registry maps it to (current tree)."""
    global _VALIDATORS
    if _VALIDATORS is not None:
        return _VALIDATORS
    import jsonschema
    from referencing import Registry, Resource
    sdir = os.path.join(REPO, "semantiva", "trace", "schema")
    reg = Registry()
    by_id = {}
    for fn in sorted(os.listdir(sdir)):
        if fn.endswith(".schema.json"):
            with open(os.path.join(sdir, fn)) as f:
                s = json.load(f)
            res = Resource.from_contents(s)
            if "$id" in s:
                reg = reg.with_resource(s["$id"], res)
                by_id[s["$id"]] = s
            reg = reg.with_resource(fn, res)
    with open(os.path.join(sdir, "trace_registry_v1.json")) as f:
        treg = json.load(f)
    out = {}
    for rtype, sid in treg["records"].items():
        schema = by_id[sid]
        cls = jsonschema.validators.validator_for(schema)
        out[rtype] = cls(schema, registry=reg)
    _VALIDATORS = out
    return out


def schema_errors(rec: dict) -> list[str]:
    r = {k: v for k, v in rec.items() if not k.startswith("_")}
    v = validators().get(r.get("record_type"))
    if v is None:
        return [f"record_type {r.get('record_type')!r} not in trace registry"]
    return [f"{'/'.join(map(str, e.absolute_path))}: {e.message[:160]}" for e in v.iter_errors(r)]


# ---------------------------------------------------------------- RFC 3339
_RFC3339 = re.compile(r"^(\d{4})-(\d{2})-(\d{2})[Tt](\d{2}):(\d{2}):(\d{2})(\.\d+)?([Zz]|[+-]\d{2}:\d{2})$")


def parse_rfc3339(s: Any) -> float | None:
    """Return the UTC epoch seconds denoted by an RFC 3339 timestamp, or None if malformed."""
    if not isinstance(s, str):
        return None
    m = _RFC3339.match(s)
    if not m:
        return None
    import calendar
    y, mo, d, h, mi, se = (int(m.group(i)) for i in range(1, 7))
    frac = float(m.group(7)) if m.group(7) else 0.0
    if not (1 <= mo <= 12 and 1 <= d <= 31 and h < 24 and mi < 60 and se <= 60):
        return None
    try:
        base = calendar.timegm((y, mo, d, h, mi, se, 0, 0, 0))
    except Exception:
        return None
    off = m.group(8)
    if off in ("Z", "z"):
        delta = 0
    else:
        sign = 1 if off[0] == "+" else -1
        delta = sign * (int(off[1:3]) * 3600 + int(off[4:6]) * 60)
    return round(base + frac - delta, 6)


def tz_offset_seconds(tz: str) -> int:
    """UTC offset east of Greenwich for the four POSIX TZ strings the harness uses."""
    return {"UTC": 0, "<+09>-9": 9 * 3600, "<-08>8": -8 * 3600, "<+0545>-5:45": 5 * 3600 + 45 * 60}[tz]


TZS = ["UTC", "<+09>-9", "<-08>8", "<+0545>-5:45"]
# every non-empty subset of the documented flags, `all`, and spellings the driver documents as equivalent (case, blanks,
# unknown flags ignored; no flag -> hash)
DETAILS = ["hash", "repr", "context", "hash,repr", "hash,context", "repr,context", "hash,repr,context", "all",
           " Hash , REPR ", "context,verbose", "timings"]


# ---------------------------------------------------------------- in-process CLI
def write_cli_config(sc: dict, path: str = "cfg.yaml", *, trace: dict | None = None, run_space: dict | None = None,
                     executor: bool = True, extra: dict | None = None, dump_kwargs: dict | None = None,
                     run_space_nested: bool = False) -> str:
    """Write a YAML configuration for `semantiva run/inspect` into the sandbox (cwd)."""
    import yaml
    cfg: dict[str, Any] = {"extensions": ["svsim.lib"], "pipeline": {"nodes": copy.deepcopy(sc["nodes"])}}
    if executor:
        cfg["execution"] = {"orchestrator": "SvOrchestrator", "executor": "SvRecordingExecutor"}
    if trace is not None:
        cfg["trace"] = trace
    if run_space is not None:
        if run_space_nested:
            cfg["pipeline"]["run_space"] = copy.deepcopy(run_space)      # the other documented placement: next to `nodes`
        else:
            cfg["run_space"] = copy.deepcopy(run_space)
    if extra:
        cfg.update(extra)
    text = yaml.safe_dump(cfg, sort_keys=False, **(dump_kwargs or {}))
    with open(path, "w") as f:
        f.write(text)
    return text


# NOTE: inside a simulated process never pass `timeout=` to subprocess.run / Popen.wait: their deadline arithmetic and
# their back-off sleep read the SIMULATED clock (time.monotonic / time.sleep are seams), so the wait spins through the
# whole timeout in microseconds. Hangs are bounded by the runner's real-time fork timeout instead.


def run_cli(argv: list[str]) -> dict:
    """Run semantiva.cli.main(argv) in-process; returns exit code, stdout, stderr."""
    import contextlib
    import io as _io
    from semantiva.cli import main
    out, err = _io.StringIO(), _io.StringIO()
    code: Any = None
    exc = None
    with contextlib.redirect_stdout(out), contextlib.redirect_stderr(err):
        try:
            main(list(argv))
            code = 0
        except SystemExit as e:
            code = e.code if e.code is not None else 0
            if not isinstance(code, int):
                err.write(str(code) + "\n")      # what the interpreter does with sys.exit("text"): print it, status 1
                code = 1
        except BaseException as e:  # noqa: BLE001
            exc = e
            code = f"raised {type(e).__name__}: {e}"
    return {"code": code, "stdout": out.getvalue(), "stderr": err.getvalue(), "exc": exc}


def cli_value(v: Any) -> str:
    """Text for `--context key=<text>`: the CLI parses it as YAML, so non-finite floats need YAML's spelling (JSON's `NaN`
    would arrive as the string 'NaN')."""
    def enc(o):
        if isinstance(o, float):
            if o != o:
                return ".nan"
            if o in (float("inf"), float("-inf")):
                return ".inf" if o > 0 else "-.inf"
        return None
    special = enc(v)
    if special is not None:
        return special
    import yaml
    if isinstance(v, (list, dict)):
        return yaml.safe_dump(v, default_flow_style=True, width=10_000).strip()
    return json.dumps(v)


def trace_cfg(mode: str, detail: str, name: str = "trace") -> dict:
    path = f"{name}.ser.jsonl" if mode == "file" else f"{name}_dir"
    return {"driver": "jsonl", "output_path": path, "options": {"detail": detail}}


def canon(x) -> str:
    """Canonical text for equality of recorded values (NaN equals NaN, dict order ignored)."""
    return json.dumps(x, sort_keys=True, default=repr)
