"""Thread engine: a cooperative scheduler over real threads.

Every simulated task is a real thread parked on its own semaphore; exactly one holds the
baton. WHO runs next is never decided by the OS: every decision (pre-empt here? which task?
virtual-time step) is one draw from a single recorded choice stream. Pre-emption points are
`sys.settrace` line events in the target source files plus every shim operation.
"""
from __future__ import annotations

import hashlib
import queue as _real_queue
import random
import sys
import threading as _rt
import types
from typing import Any, Callable


class SimKilled(BaseException):
    """Raised inside parked tasks when the simulation is torn down."""


class Deadlock(Exception):
    pass


class Task:
    def __init__(self, sched: "Scheduler", name: str, fn: Callable[[], Any]):
        self.sched = sched
        self.name = name
        self.fn = fn
        self.sem = _rt.Semaphore(0)
        self.state = "new"  # new | ready | blocked | done
        self.wake_at: float | None = None
        self.blocked_on: Any = None
        self.exc: BaseException | None = None
        self.result: Any = None
        self.priority = 0.0
        self.thread = _rt.Thread(target=self._boot, name=f"sim-{name}", daemon=True)
        self.steps = 0

    def _boot(self):
        self.sem.acquire()
        s = self.sched
        try:
            if s.aborting:
                return
            sys.settrace(s._tracer)
            try:
                self.result = self.fn()
            finally:
                sys.settrace(None)
        except SimKilled:
            pass
        except BaseException as e:  # noqa: BLE001
            self.exc = e
            s.task_errors.append((self.name, e))
        finally:
            self.state = "done"
            s.log("task.done", self.name)
            s._on_task_exit(self)


class Scheduler:
    def __init__(self, seed: int, *, targets: tuple[str, ...], strategy: dict | None = None,
                 choices: list[int] | None = None, max_steps: int = 200_000, dt=(1e-5, 2e-3)):
        self.rng = random.Random(seed)
        self.replay = list(choices) if choices is not None else None
        self.rpos = 0
        self.choices: list[int] = []
        self.targets = targets
        self.tasks: list[Task] = []
        self.current: Task | None = None
        self.now = 0.0
        self.steps = 0
        self.max_steps = max_steps
        self.dt = dt
        self.aborting = False
        self.outcome: str | None = None
        self.done_evt = _rt.Event()
        self.events: list[tuple] = []
        self.switches: list[tuple] = []
        self.task_errors: list[tuple] = []
        self.strategy = strategy or {"kind": "random", "p": 0.2}
        self.burst_left = 0
        self.pct_points: set[int] = set()
        self.probes: dict[str, int] = {}
        self.last_loc = ("", 0)
        self._spawn_count = 0
        if self.strategy["kind"] == "pct":
            est = self.strategy.get("est_steps", 400)
            for _ in range(self.strategy.get("d", 1)):
                self.pct_points.add(self.draw(est))

    # ---- choice stream -------------------------------------------------
    def draw(self, n: int) -> int:
        if n <= 1:
            return 0
        if self.replay is not None:
            v = self.replay[self.rpos] if self.rpos < len(self.replay) else 0
            self.rpos += 1
            v = v % n
        else:
            v = self.rng.randrange(n)
        self.choices.append(v)
        return v

    def coin(self, p: float) -> bool:
        return self.draw(1000) >= 1000 - int(p * 1000)  # 0 (= exhausted replay stream) means 'do not pre-empt'

    def log(self, *ev) -> None:
        self.events.append((self.steps,) + ev)

    def probe(self, name: str) -> None:
        self.probes[name] = self.probes.get(name, 0) + 1

    # ---- tasks ---------------------------------------------------------
    def spawn(self, name: str, fn: Callable[[], Any]) -> Task:
        t = Task(self, name, fn)
        if self.strategy["kind"] in ("pct", "pct_fair"):
            t.priority = 1.0 + self.draw(1000) / 1000.0
        self.tasks.append(t)
        t.state = "ready"
        t.thread.start()
        self.log("task.spawn", name)
        return t

    def runnable(self) -> list[Task]:
        return [t for t in self.tasks if t.state == "ready"]

    # ---- tracing -------------------------------------------------------
    def _tracer(self, frame, event, arg):
        if event == "call":
            fn = frame.f_code.co_filename
            if fn.endswith(self.targets):
                return self._local
            return None
        return None

    def _local(self, frame, event, arg):
        if event == "line":
            code = frame.f_code
            self.last_loc = (code.co_filename.rsplit("/", 1)[-1], frame.f_lineno)
            if code.co_name == "<lambda>":
                self.probe("line_in_lambda")
            self.yield_point()
        return self._local

    # ---- core ----------------------------------------------------------
    def _advance(self) -> None:
        lo, hi = self.dt
        self.now += lo + (hi - lo) * (self.draw(64) / 63.0)

    def yield_point(self, force: bool = False) -> None:
        """Called by the baton holder. May hand the baton to another task."""
        if self.aborting:
            if _rt.current_thread() is not _MAIN:
                raise SimKilled()
            return
        cur = self.current
        if cur is None or _rt.current_thread() is not cur.thread:
            return  # not a simulated task (e.g. harness main thread)
        self.steps += 1
        cur.steps += 1
        self._advance()
        if self.steps > self.max_steps:
            self._abort("step_cap")
            raise SimKilled()
        self._wake_sleepers()
        nxt = self._pick(cur, force)
        if nxt is not cur:
            self._switch(cur, nxt)

    def _wake_sleepers(self) -> None:
        for t in self.tasks:
            if t.state == "blocked" and t.wake_at is not None and t.wake_at <= self.now:
                t.state = "ready"
                t.timed_out = True
                t.wake_at = None

    def _pick(self, cur: Task, force: bool) -> Task:
        ready = self.runnable()
        others = [t for t in ready if t is not cur]
        if cur.state != "ready":
            # current task blocked / done: must switch
            if not ready:
                return self._idle(cur)
            return self._choose(ready)
        if not others:
            return cur
        k = self.strategy["kind"]
        if k == "random":
            if force or self.coin(self.strategy.get("p", 0.2)):
                return self._choose(ready)
            return cur
        if k == "bursty":
            if self.burst_left > 0 and not force:
                self.burst_left -= 1
                return cur
            # geometric burst length
            n = 1
            while n < 60 and not self.coin(self.strategy.get("q", 0.15)):
                n += 1
            self.burst_left = n
            return self._choose(ready)
        if k == "pct":
            if self.steps in self.pct_points:
                cur.priority = -float(self.steps)
            best = max(ready, key=lambda t: (t.priority, -self.tasks.index(t)))
            return best
        if k == "pct_fair":
            # strict priorities (long deschedules of one task, like PCT) but all priorities are re-drawn every `period`
            # steps, which makes the schedule fair in the long run (needed by liveness oracles)
            period = self.strategy.get("period", 150)
            if self.steps % period == 0:
                for t in self.tasks:
                    t.priority = 1.0 + self.draw(1000) / 1000.0
            best = max(ready, key=lambda t: (t.priority, -self.tasks.index(t)))
            return best
        return cur

    def _choose(self, ready: list[Task]) -> Task:
        if self.strategy["kind"] in ("pct", "pct_fair"):
            return max(ready, key=lambda t: (t.priority, -self.tasks.index(t)))
        return ready[self.draw(len(ready))]

    def _idle(self, cur: Task) -> Task:
        """Nothing runnable: jump the clock to the earliest deadline, or report deadlock/completion."""
        timed = [t for t in self.tasks if t.state == "blocked" and t.wake_at is not None]
        if timed:
            t = min(timed, key=lambda x: (x.wake_at, self.tasks.index(x)))
            self.now = max(self.now, t.wake_at)
            self._wake_sleepers()
            return self._choose(self.runnable())
        if all(t.state == "done" for t in self.tasks):
            self.outcome = self.outcome or "completed"
        else:
            self.outcome = "deadlock"
            self.log("deadlock", [(t.name, t.state, str(t.blocked_on)) for t in self.tasks])
        return None  # type: ignore[return-value]

    def _switch(self, cur: Task, nxt: Task | None) -> None:
        if nxt is None:
            # simulation over (completed or deadlock)
            self.current = None
            self.aborting = self.outcome != "completed"
            self.done_evt.set()
            if cur.state != "done":
                cur.sem.acquire()
                raise SimKilled()
            return
        self.switches.append((cur.name, self.last_loc[0], self.last_loc[1], nxt.name))
        self.current = nxt
        nxt.sem.release()
        if cur.state != "done":
            cur.sem.acquire()
            if self.aborting:
                raise SimKilled()

    def _on_task_exit(self, t: Task) -> None:
        if self.aborting:
            return
        if self.current is t:
            ready = self.runnable()
            if ready:
                nxt = self._choose(ready)
            else:
                nxt = self._idle(t)
            self._switch(t, nxt)

    def block(self, on: Any, timeout: float | None = None) -> bool:
        """Block the current task until woken (returns True) or the virtual timeout passes (False)."""
        cur = self.current
        if self.aborting or cur is None:
            raise SimKilled()
        cur.state = "blocked"
        cur.blocked_on = on
        cur.timed_out = False
        cur.wake_at = (self.now + timeout) if timeout is not None else None
        self.yield_point()
        cur.blocked_on = None
        return not getattr(cur, "timed_out", False)

    def wake(self, t: Task) -> None:
        if t.state == "blocked":
            t.state = "ready"
            t.wake_at = None
            t.timed_out = False

    def _abort(self, why: str) -> None:
        self.outcome = why
        self.aborting = True
        self.current = None
        self.done_evt.set()

    # ---- driving -------------------------------------------------------
    def run(self, wall_timeout: float = 60.0) -> str:
        """Hand the baton to the first task; wait (real time) for the simulation to end."""
        ready = self.runnable()
        if not ready:
            return "completed"
        first = self._choose(ready)
        self.current = first
        first.sem.release()
        ok = self.done_evt.wait(wall_timeout)
        if not ok:
            self._abort("wall_timeout")
        # release every parked task so that it unwinds
        if self.aborting:
            for t in self.tasks:
                if t.state != "done":
                    t.sem.release()
        for t in self.tasks:
            t.thread.join(2.0)
        return self.outcome or "completed"

    def switch_digest(self) -> str:
        h = hashlib.sha256(repr(self.switches).encode()).hexdigest()
        return h[:16]

    def digest(self) -> str:
        h = hashlib.sha256()
        h.update(repr(self.switches).encode())
        h.update(repr(self.events).encode())
        h.update(repr(self.choices).encode())
        return h.hexdigest()[:16]


_MAIN = _rt.main_thread()
SCHED: Scheduler | None = None


def S() -> Scheduler:
    assert SCHED is not None
    return SCHED


# ---------------------------------------------------------------- shims
class SimLock:
    def __init__(self):
        self.holder: Task | None = None
        self.waiters: list[Task] = []

    def acquire(self, blocking: bool = True, timeout: float = -1) -> bool:
        s = SCHED
        if s is None or s.current is None or _rt.current_thread() is not s.current.thread:
            self.holder = self.holder or "main"  # type: ignore[assignment]
            return True
        s.yield_point()
        while self.holder is not None:
            if not blocking:
                return False
            s.probe("lock_contended")
            self.waiters.append(s.current)
            ok = s.block(self, None if timeout is None or timeout < 0 else timeout)
            if not ok:
                return False
        self.holder = s.current
        return True

    def release(self) -> None:
        s = SCHED
        self.holder = None
        ws, self.waiters = self.waiters, []
        if s is not None:
            for t in ws:
                s.wake(t)
            if s.current is not None and _rt.current_thread() is s.current.thread:
                s.yield_point()

    def locked(self) -> bool:
        return self.holder is not None

    def __enter__(self):
        self.acquire()
        return self

    def __exit__(self, *a):
        self.release()
        return False


class SimRLock(SimLock):
    """Re-entrant variant (threading.RLock): the holding task may acquire again."""

    def __init__(self):
        super().__init__()
        self.depth = 0

    def acquire(self, blocking: bool = True, timeout: float = -1) -> bool:
        s = SCHED
        me = s.current if (s is not None and s.current is not None and _rt.current_thread() is s.current.thread) else "main"
        if self.holder is not None and self.holder is me:
            self.depth += 1
            return True
        ok = super().acquire(blocking, timeout)
        if ok:
            self.depth = 1
        return ok

    def release(self) -> None:
        self.depth -= 1
        if self.depth <= 0:
            self.depth = 0
            super().release()


class SimEvent:
    def __init__(self):
        self.flag = False
        self.waiters: list[Task] = []

    def is_set(self) -> bool:
        return self.flag

    def set(self) -> None:
        self.flag = True
        s = SCHED
        ws, self.waiters = self.waiters, []
        if s is not None:
            for t in ws:
                s.wake(t)

    def clear(self) -> None:
        self.flag = False

    def wait(self, timeout: float | None = None) -> bool:
        s = SCHED
        if self.flag or s is None or s.current is None:
            return self.flag
        self.waiters.append(s.current)
        s.block(self, timeout)
        return self.flag


class SimThread:
    def __init__(self, group=None, target=None, name=None, args=(), kwargs=None, *, daemon=None):
        self._target, self._args, self._kwargs = target, args, kwargs or {}
        self.name = name
        self.daemon = daemon
        self._task: Task | None = None

    def start(self):
        s = S()
        s._spawn_count += 1
        nm = self.name or f"spawned{s._spawn_count}"
        self._task = s.spawn(nm, lambda: self._target(*self._args, **self._kwargs))
        s.yield_point()

    def join(self, timeout=None):
        s = S()
        while self._task is not None and self._task.state != "done":
            s.block(("join", self._task.name), 0.01)

    def is_alive(self):
        return self._task is not None and self._task.state != "done"


class SimQueue:
    def __init__(self, maxsize: int = 0):
        self.items: list = []
        self.waiters: list[Task] = []

    def put(self, item, block=True, timeout=None):
        s = SCHED
        if s is not None and s.current is not None and _rt.current_thread() is s.current.thread:
            s.yield_point()
        self.items.append(item)
        ws, self.waiters = self.waiters, []
        if s is not None:
            for t in ws:
                s.wake(t)

    def put_nowait(self, item):
        self.put(item)

    def get(self, block=True, timeout=None):
        s = S()
        s.yield_point()
        while not self.items:
            if not block:
                raise _real_queue.Empty
            self.waiters.append(s.current)
            ok = s.block(self, timeout)
            if not ok and not self.items:
                raise _real_queue.Empty
        return self.items.pop(0)

    def get_nowait(self):
        return self.get(block=False)

    def empty(self):
        return not self.items

    def qsize(self):
        return len(self.items)


def sim_sleep(seconds: float) -> None:
    s = SCHED
    if s is None or s.current is None or _rt.current_thread() is not s.current.thread:
        return
    s.block(("sleep", seconds), max(0.0, float(seconds)))


def make_threading_shim():
    ns = types.SimpleNamespace()
    ns.Lock = SimLock
    ns.RLock = SimRLock
    ns.Event = SimEvent
    ns.Thread = SimThread
    ns.current_thread = _rt.current_thread
    ns.get_ident = _rt.get_ident
    return ns


def make_queue_shim():
    ns = types.SimpleNamespace()
    ns.Queue = SimQueue
    ns.Empty = _real_queue.Empty
    ns.Full = _real_queue.Full
    return ns


def make_time_shim():
    import time as _t
    ns = types.SimpleNamespace()
    for name in ("time", "time_ns", "monotonic", "perf_counter", "process_time", "strftime", "localtime", "gmtime"):
        setattr(ns, name, getattr(_t, name))
    ns.sleep = sim_sleep
    return ns


class Installed:
    """Context manager that rebinds threading/queue/time names in the target modules' globals."""

    def __init__(self, sched: Scheduler, modules: list):
        self.sched = sched
        self.modules = modules
        self.saved: list[tuple] = []

    def __enter__(self):
        global SCHED
        SCHED = self.sched
        tsh, qsh, tmsh = make_threading_shim(), make_queue_shim(), make_time_shim()
        import queue as _rq
        import threading as _rth
        import time as _rtime
        # names imported directly (`from threading import Lock`, `from time import sleep`, ...) are rebound as well, so that
        # the engine does not depend on which import style the module under test happens to use
        direct = {id(_rth.Lock): SimLock, id(_rth.RLock): SimRLock, id(_rth.Event): SimEvent, id(_rth.Thread): SimThread,
                  id(_rq.Queue): SimQueue, id(_rq.SimpleQueue): SimQueue, id(_rtime.sleep): sim_sleep}
        for m in self.modules:
            for name, shim in (("threading", tsh), ("queue", qsh), ("time", tmsh)):
                if hasattr(m, name) and isinstance(getattr(m, name), types.ModuleType):
                    self.saved.append((m, name, getattr(m, name)))
                    setattr(m, name, shim)
            for name, obj in list(vars(m).items()):
                rep = direct.get(id(obj))
                if rep is not None and not name.startswith("__"):
                    self.saved.append((m, name, obj))
                    setattr(m, name, rep)
        return self

    def __exit__(self, *a):
        global SCHED
        for m, name, old in self.saved:
            setattr(m, name, old)
        SCHED = None
        return False


STRATEGIES = [
    {"kind": "random", "p": 0.02}, {"kind": "random", "p": 0.1}, {"kind": "random", "p": 0.3}, {"kind": "random", "p": 0.6},
    {"kind": "pct", "d": 0}, {"kind": "pct", "d": 1}, {"kind": "pct", "d": 2}, {"kind": "pct", "d": 3},
    {"kind": "bursty", "q": 0.15}, {"kind": "bursty", "q": 0.4},
    {"kind": "pct_fair", "period": 60}, {"kind": "pct_fair", "period": 250}, {"kind": "pct_fair", "period": 1000},
]


def choice_shrink_candidates(choices: list[int]):
    """Smaller schedules: an exhausted / zeroed choice stream means 'keep running the current task, take the first
    ready task, smallest time step', so truncating or zeroing blocks removes pre-emptions."""
    n = len(choices)
    if n == 0:
        return
    seen = set()
    for k in (n // 8, n // 4, n // 2, (3 * n) // 4, n - max(1, n // 10), n - 1):
        if 0 <= k < n and k not in seen:
            seen.add(k)
            yield choices[:k]
    width = max(1, n // 8)
    while width >= 1:
        for start in range(0, n, width):
            blk = choices[start:start + width]
            if any(blk):
                yield choices[:start] + [0] * len(blk) + choices[start + width:]
        if width == 1:
            break
        width //= 2
