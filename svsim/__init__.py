"""svsim - deterministic simulation with fault injection for semantiva."""
import os as _os
import tempfile as _tempfile


def scratch_root() -> str:
    p = _os.environ.get("SVSIM_SCRATCH")
    if p:
        return p
    for cand in ("/dev/shm", _tempfile.gettempdir()):
        if _os.path.isdir(cand) and _os.access(cand, _os.W_OK):
            return _os.path.join(cand, "semverif")
    return _os.path.join(_tempfile.gettempdir(), "semverif")
