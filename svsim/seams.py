"""Global nondeterminism seams: clock, datetime, uuid.

Must be imported and ``install()``-ed BEFORE ``import semantiva`` so that any
import style in the repository (``import time``, ``from time import time``,
``from datetime import datetime``) resolves to the simulated versions.

The harness keeps the real functions under ``REAL`` for its own wall-clock
budgets; nothing in a simulated run reads them.
"""
from __future__ import annotations

import datetime as _dt
import random
import time as _time
import uuid as _uuid


class _Real:
    time = _time.time
    time_ns = _time.time_ns
    monotonic = _time.monotonic
    perf_counter = _time.perf_counter
    process_time = _time.process_time
    sleep = _time.sleep
    datetime = _dt.datetime
    date = _dt.date
    uuid4 = _uuid.uuid4
    localtime = _time.localtime
    gmtime = _time.gmtime
    strftime = _time.strftime


REAL = _Real


class SimClock:
    """Virtual wall/CPU clock. Every read advances time by a seeded step."""

    def __init__(self, seed: int = 0, base: float | None = None,
                 lo_ms: int = 3, hi_ms: int = 50, const_step_ms: int | None = None):
        self.rng = random.Random(seed)
        if base is None:
            base = 1.0e9 + self.rng.random() * 1.0e9
            if self.rng.random() < 0.5:
                # within +-3h of a UTC midnight so that local date != UTC date
                day = int(base // 86400) * 86400
                base = day + self.rng.uniform(-3 * 3600, 3 * 3600)
        # millisecond-aligned base keeps every reading exactly representable at ms
        self.wall = round(base, 3)
        self.cpu = 10.0
        self.lo_ms, self.hi_ms = lo_ms, hi_ms
        self.const_step_ms = const_step_ms
        # 30 % of the clocks have microsecond resolution, with readings biased towards the end of a wall-clock second
        # (x.9995 .. x.99999: where rounding instead of truncating a sub-second field overflows it)
        self.sub_ms = const_step_ms is None and self.rng.random() < 0.3
        self.readings: list[float] = []
        self.reads = 0
        self.stalled = 0.0
        self.record = True

    def _step(self) -> None:
        if self.const_step_ms is not None:
            ms = self.const_step_ms
        else:
            ms = self.rng.randint(self.lo_ms, self.hi_ms)
        if self.sub_ms:
            import math
            nxt = self.wall + ms / 1000.0 + self.rng.randrange(1000) / 1.0e6
            if self.rng.random() < 0.06:
                edge = math.floor(nxt) + 0.9995 + self.rng.randrange(500) / 1.0e6
                nxt = edge if edge > self.wall else edge + 1.0
            self.wall = round(nxt, 6)
        else:
            self.wall = round(self.wall + ms / 1000.0, 3)
        self.cpu += (ms / 1000.0) * 0.5

    def read_wall(self) -> float:
        self._step()
        self.reads += 1
        if self.record:
            self.readings.append(self.wall)
        return self.wall

    def read_cpu(self) -> float:
        self._step()
        self.reads += 1
        return self.cpu

    def advance(self, seconds: float) -> None:
        self.wall = round(self.wall + seconds, 6 if self.sub_ms else 3)
        self.stalled += seconds

    def reset_readings(self) -> None:
        self.readings = []


class SimUUID:
    def __init__(self, seed: int = 0):
        self.rng = random.Random(seed)
        self.issued = 0

    def uuid4(self) -> _uuid.UUID:
        self.issued += 1
        return _uuid.UUID(int=self.rng.getrandbits(128), version=4)

    def uuid7(self) -> _uuid.UUID:
        self.issued += 1
        return _uuid.UUID(int=self.rng.getrandbits(128), version=7 if hasattr(_uuid, "uuid7") else 4)


CLOCK: SimClock = SimClock(0)
UUIDS: SimUUID = SimUUID(0)
_installed = False


def set_clock(c: SimClock) -> None:
    global CLOCK
    CLOCK = c


def set_uuids(u: SimUUID) -> None:
    global UUIDS
    UUIDS = u


def _sim_time() -> float:
    return CLOCK.read_wall()


def _sim_time_ns() -> int:
    return int(round(CLOCK.read_wall() * 1000)) * 1_000_000


def _sim_monotonic() -> float:
    return CLOCK.read_wall() - 9.0e8


def _sim_process_time() -> float:
    return CLOCK.read_cpu()


def _sim_sleep(seconds: float) -> None:
    CLOCK.advance(max(0.0, float(seconds)))


def _sim_localtime(secs=None):
    if secs is None:
        secs = CLOCK.read_wall()
    return REAL.localtime(secs)


def _sim_gmtime(secs=None):
    if secs is None:
        secs = CLOCK.read_wall()
    return REAL.gmtime(secs)


def _sim_strftime(fmt, t=None):
    if t is None:
        t = _sim_localtime()
    return REAL.strftime(fmt, t)


class SimDate(_dt.date):
    @classmethod
    def today(cls):
        return cls.fromtimestamp(CLOCK.read_wall())


class SimDateTime(_dt.datetime):
    """datetime subclass whose ``now``/``utcnow``/``today`` read the SimClock.

    ``now(tz)`` is exactly CPython's definition ``fromtimestamp(time.time(), tz)``
    so the C library applies the TZ in force (time.tzset()).
    """

    @classmethod
    def now(cls, tz=None):
        return cls.fromtimestamp(CLOCK.read_wall(), tz)

    @classmethod
    def utcnow(cls):
        t = CLOCK.read_wall()
        return cls.fromtimestamp(t, _dt.timezone.utc).replace(tzinfo=None)

    @classmethod
    def today(cls):
        return cls.fromtimestamp(CLOCK.read_wall())


def install() -> None:
    """Replace the process-wide clock / uuid entry points (idempotent)."""
    global _installed
    if _installed:
        return
    _installed = True
    _time.time = _sim_time
    _time.time_ns = _sim_time_ns
    _time.monotonic = _sim_monotonic
    _time.monotonic_ns = lambda: int(_sim_monotonic() * 1e9)
    _time.perf_counter = _sim_monotonic
    _time.perf_counter_ns = lambda: int(_sim_monotonic() * 1e9)
    _time.process_time = _sim_process_time
    _time.process_time_ns = lambda: int(_sim_process_time() * 1e9)
    _time.thread_time = _sim_process_time
    _time.sleep = _sim_sleep
    _time.localtime = _sim_localtime
    _time.gmtime = _sim_gmtime
    _time.strftime = _sim_strftime
    _dt.datetime = SimDateTime
    _dt.date = SimDate
    _uuid.uuid4 = lambda: UUIDS.uuid4()
    if hasattr(_uuid, "uuid7"):
        _uuid.uuid7 = lambda: UUIDS.uuid7()
    _uuid.uuid1 = lambda *a, **k: UUIDS.uuid4()


def real_now() -> float:
    return REAL.time()


# A YAML loader whose implicit-resolver table is a private copy taken before any code under test is imported: the harness'
# own judgement of what a YAML text MEANS must not depend on process-global state that the code under test may change.
import yaml as _yaml


class PristineLoader(_yaml.SafeLoader):
    yaml_implicit_resolvers = {k: list(v) for k, v in _yaml.SafeLoader.yaml_implicit_resolvers.items()}


def pristine_load(text: str):
    return _yaml.load(text, Loader=PristineLoader)
