"""Determinism self-test: every seed executed twice in different processes (and once more under
another PYTHONHASHSEED in a fresh interpreter); event-log digests must be identical."""
from __future__ import annotations

import json
import os
import subprocess
import sys

from . import runner

ALL = ["C06", "C07", "C10", "C13", "C04", "C14", "C15", "C17", "C09", "C18"]


def _digests(prop: str, n: int, master: int) -> dict:
    """Run n seeds of prop (quick-tier generator) in forked children; return seed->digest."""
    from . import harness
    harness.setup_process()
    mod = runner.load_prop(prop)
    if hasattr(mod, "warm"):
        mod.warm()
    out = {}
    for i in range(n):
        seed = runner.seed_for(master, prop, i)
        res = runner._fork_run(mod, [seed], "quick", 300.0)[0]
        out[str(seed)] = [res.get("digest"), res.get("harness_error"),
                          sorted((v["clause"], v["key"]) for v in res.get("violations", []))]
    return out


def _child_main() -> int:
    prop, n, master = sys.argv[2], int(sys.argv[3]), int(sys.argv[4])
    print("DIGESTS " + json.dumps(_digests(prop, n, master)))
    return 0


def _spawn(prop: str, n: int, master: int, hashseed: str) -> dict:
    env = dict(os.environ, PYTHONHASHSEED=hashseed)
    p = subprocess.run([sys.executable, "-m", "svsim.selftest", "child", prop, str(n), str(master)],
                       env=env, capture_output=True, text=True, timeout=1800)
    for line in p.stdout.splitlines():
        if line.startswith("DIGESTS "):
            return json.loads(line[8:])
    raise RuntimeError(f"selftest child failed: {p.stdout[-2000:]} {p.stderr[-2000:]}")


def determinism(props: list[str], n: int, master: int = 424242) -> int:
    props = props or [p for p in ALL if os.path.exists(os.path.join(os.path.dirname(__file__), "props", p.lower() + ".py"))]
    bad = 0
    for prop in props:
        mod = runner.load_prop(prop)
        a = _spawn(prop, n, master, "0")
        b = _spawn(prop, n, master, "0")
        c = _spawn(prop, n, master, "1") if getattr(mod, "HASHSEED_INVARIANT_LOG", True) else a
        diff_ab = [s for s in a if a[s] != b.get(s)]
        diff_ac = [s for s in a if a[s] != c.get(s)]
        none = [s for s in a if a[s][0] is None]
        print(f"selftest determinism {prop}: seeds={len(a)} same-process-diff={len(diff_ab)} hashseed-diff={len(diff_ac)} no-digest={len(none)}")
        for s in (diff_ab + diff_ac)[:3]:
            print("  seed", s, a[s], b.get(s), c.get(s))
        if diff_ab or diff_ac or none:
            bad += 1
    return 3 if bad else 0


if __name__ == "__main__":
    if len(sys.argv) > 1 and sys.argv[1] == "child":
        sys.exit(_child_main())
