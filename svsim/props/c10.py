"""C10 - tracing is purely observational and traces are reproducible.

One evaluation = a history of 4..10 operations in one interpreter over a subject configuration A
(succeeding or failing) and a bystander configuration B: untraced runs of A, traced runs of A at
each sampled detail level through fresh Pipeline objects and through one reused Pipeline object,
runs of B in between. Clock and uuid streams advance between runs, so two traced runs never
share a run id or a timestamp.
"""
from __future__ import annotations

import copy
import hashlib
import json
import os
import random
import subprocess
import sys

from .. import gen, harness, oracles
from ..world import SimWorld

LEVEL = "exploration"
RULE = ("seeded histories over (subject config A, bystander config B): ops in {untraced A, traced A via fresh Pipeline, "
        "traced A via one reused Pipeline object, traced/untraced B}; A is fault-free or carries one failure "
        "(config-borne or injected, any node). distinct_nontrivial = distinct (A digest, history digest) in which at "
        "least two traced runs of A at the same detail level and one untraced run of A were executed."
        " Further seeded dimensions: lazy one-shot stream payloads, payloads whose __len__/__repr__ raise, result object fed back into a reused Pipeline, second run in a fresh interpreter under another hash seed, two CLI launches with a reproducible launch id, and (8 %) two caller threads tracing concurrently as the first traced runs of a fresh interpreter under the thread engine. Seventh round: a stochastic leaf with the global PRNG seeded before every run, one orchestrator shared with a sibling configuration.")
REAL_COMPONENTS = ["Pipeline / orchestrator incl. all trace branches", "JsonlTraceDriver", "DeltaCollector", "trace._utils",
                   "node factory, generated classes", "graph_builder / semantic ids (pipeline_start content)"]
STUB_COMPONENTS = ["leaf processors (svsim.lib)", "RecordingExecutor", "SimClock/SimUUID (advance between runs)"]
ASSUMPTIONS = ["volatile fields are exactly: run_id (header and identity.run_id), timestamp, timing.started_at, "
               "timing.finished_at, timing.wall_ms, timing.cpu_ms, seq - nothing else is removed before comparing"]
REQUIRED_PROBES = ["reused_pipeline_second_traced_run", "reused_pipeline_with_sweep", "failing_subject", "history_contains_other_config",
                   "result_object_fed_back", "other_process_other_hashseed", "cli_launch_repeated_with_same_launch_id", "concurrent_first_traced_runs_in_fresh_interpreter", "orchestrator_shared_with_sibling_config", "stochastic_processor_with_seeded_global_prng", "equal_but_differently_typed_context_values_in_history", "configuration_with_two_defects", "non_json_value_appended_in_place_to_a_context_list"]
CONFIG = {
    "quick": {"runs": 2000, "budget_s": 240, "timeout_s": 120},
    "thorough": {"runs": 60000, "budget_s": 1500, "timeout_s": 120},
    "shrink_s": 40.0,
}
VOLATILE_TOP = {"run_id", "timestamp", "seq"}
VOLATILE_TIMING = {"started_at", "finished_at", "wall_ms", "cpu_ms"}


def _digest(obj) -> str:
    return hashlib.sha256(json.dumps(obj, sort_keys=True, default=repr).encode()).hexdigest()[:12]


def generate(rng: random.Random, tier: str, seed: int) -> dict:
    a = gen.gen_pipeline(rng)
    subject = dict(a, faults=[])
    fail = None
    if rng.random() < 0.4:
        fs = gen.applicable_failures(a)
        if fs:
            kind, k = rng.choice(fs)
            subject = gen.apply_failure(a, kind, k)
            fail = [kind, k]
            if kind in ("probe_no_key", "unknown_param") and rng.random() < 0.5:
                # a second, later defect in the same configuration: whichever error the untraced run reports, the traced run reports too
                subject = dict(subject, nodes=subject["nodes"] + [{"processor": "SvNoSuchProcessor"}])
                fail = [kind + "+unknown_processor_later", k]
    py_seed = None
    if fail is None and a["truth"][-1]["out"] == "float" and rng.random() < 0.2:
        # a stochastic processor drawing from the global `random` generator; the caller seeds it before every run
        subject = dict(subject, nodes=subject["nodes"] + [{"processor": "SvJitter", "parameters": {"scale": 2.0}}])
        py_seed = rng.getrandbits(32)
    if fail is None and py_seed is None and a["truth"][-1]["out"] == "float" and rng.random() < 0.06:
        # a node that appends a value JSON cannot encode, in place, to a list it received from the context
        subject = dict(subject, nodes=subject["nodes"] + [{"processor": "SvAppendInPlace"}], context=dict(subject["context"], acc=[]))
        in_place = True
    else:
        in_place = False
    if fail is None and py_seed is None and not in_place and a["truth"][-1]["out"] == "float" and rng.random() < 0.08:
        # a parameter built from a `model:` descriptor: a stateful object, new for every run; what the trace says about it
        # must not depend on which run (or which memory address) it was
        subject = dict(subject, nodes=subject["nodes"] + [{"processor": "SvUseModel", "parameters": {"model": "model:SvOnlineMean:bias=1.5"}}])
    if fail is None and a["truth"][-1]["out"] == "float" and rng.random() < 0.1:
        # free-form text as a node parameter: non-ASCII, control characters, and a str with a lone surrogate (what os.listdir /
        # os.fsdecode return for a file name that is not valid UTF-8) - all of it lands in processor.parameters of the SER
        text = rng.choice(["na\u00efve \u2615", "result_\udcff.txt", "tab\there", "two\u2028lines", "\U0001F600 ok"])
        subject = dict(subject, nodes=subject["nodes"] + [{"processor": "SvLabel", "parameters": {"label": text}}])
    b = gen.gen_pipeline(rng)
    equal_values = fail is None and py_seed is None and rng.random() < 0.06
    if equal_values:
        # A creates the float 1.0 in the context; the bystander B creates the boolean True (equal, differently typed) - and B
        # runs before A's first traced run; A is also traced in a fresh interpreter that never saw B
        subject = {"nodes": [{"processor": "SvSource", "parameters": {"value": 1.0}}, {"processor": "SvProbe", "context_key": "unit"},
                             {"processor": "SvAddDefault"}], "context": {}, "init_data": None, "faults": []}
        a = dict(subject, truth=None)
        b = {"nodes": [{"processor": "SvSource", "parameters": {"value": 3.5}}, {"processor": "SvCtxWriterFlag"}], "context": {}, "init_data": None}
    details = [rng.choice(harness.DETAILS) for _ in range(rng.randint(1, 2))]
    ops = [["untraced", "A", None]]
    for d in details:
        ops.append(["fresh", "A", d])
        ops.append(["fresh", "A", d])
        ops.append(["reuse", "A", d])
        ops.append(["reuse", "A", d])
    if subject.get("init_data") is not None and fail is None and a.get("truth") and a["truth"][-1]["out"] == "float":
        # feed a previous result object back in after resetting its value in place through the .data setter
        for d in details:
            ops.append(["reuse_feedback", "A", d])
    for _ in range(rng.randint(0, 3)):
        ops.append([rng.choice(["fresh", "untraced"]), "B", rng.choice(harness.DETAILS)])
    if rng.random() < 0.5:
        ops.append(["untraced", "A", None])
    variant = _sweep_variant(subject) if fail is None else None
    if variant is not None and rng.random() < 0.5:
        # one orchestrator object shared by several Pipelines: a sibling configuration (same nodes and parameters, another
        # sweep expression) runs on it before and after A
        d0 = details[0]
        ops += [["shared_variant", "A", d0], ["shared", "A", d0], ["shared_variant", "A", d0], ["shared", "A", d0]]
    rng.shuffle(ops)
    if equal_values:
        ops = [["fresh", "B", details[0]]] + ops
    hs = rng.choice([1, 2, 3, 5, 7]) if (rng.random() < 0.12 or (fail and fail[0].startswith("unresolvable"))) else None
    cli_pair = rng.choice([None, None, None, ["--run-space-launch-id", "L-1"], ["--run-space-idempotency-key", "K-1"],
                           ["--run-space-launch-id", "L-1", "--run-space-attempt", "2"],
                           ["--run-space-launch-id", "L-1", "--run-space-attempt", "0"]])      # an attempt number the CLI rejects
    from .. import threads as _th
    # 8 %: the FIRST traced runs of a fresh interpreter happen concurrently on two caller threads (config-borne failures only)
    concurrent = {"sched_seed": rng.getrandbits(48), "strategy": rng.choice(_th.STRATEGIES)} \
        if (rng.random() < 0.08 and not subject.get("faults") and py_seed is None) else None    # (a shared global PRNG drawn from by two threads is not reproducible by definition)
    if equal_values:
        hs = hs or rng.choice([1, 2, 3])
    return {"in_place_append": in_place, "equal_values": equal_values, "py_seed": py_seed, "variant": variant, "concurrent": concurrent, "A": subject, "B": dict(b, faults=[]), "ops": ops, "fail": fail, "A_truth": a.get("truth"), "remote_exec": rng.random() < 0.25,
            "hashseed": hs, "cli_pair": cli_pair}


def _sweep_variant(a: dict) -> dict | None:
    """A with the first sweep expression changed (same processors, same explicit parameters): another configuration that
    shares A's pipeline shape. None when A has no sweep expression."""
    v = copy.deepcopy(a)
    for n in v["nodes"]:
        sw = (n.get("derive") or {}).get("parameter_sweep")
        if sw and sw.get("parameters"):
            k = sorted(sw["parameters"])[0]
            sw["parameters"][k] = f"({sw['parameters'][k]}) + 0.5"
            return v
    return None


def normalize(recs: list[dict]) -> list[dict]:
    out = []
    for r in recs:
        r = copy.deepcopy({k: v for k, v in r.items() if not k.startswith("_")})
        for k in VOLATILE_TOP:
            r.pop(k, None)
        if isinstance(r.get("identity"), dict):
            r["identity"].pop("run_id", None)
        if isinstance(r.get("timing"), dict):
            for k in VOLATILE_TIMING:
                r["timing"].pop(k, None)
        out.append(r)
    return out


def _first_diff(a, b, path="") -> str:
    if type(a) is not type(b):
        return f"{path}: {type(a).__name__} vs {type(b).__name__}"
    if isinstance(a, dict):
        for k in sorted(set(a) | set(b)):
            if k not in a or k not in b:
                return f"{path}/{k}: present in only one trace"
            d = _first_diff(a[k], b[k], f"{path}/{k}")
            if d:
                return d
        return ""
    if isinstance(a, list):
        if len(a) != len(b):
            return f"{path}: list length {len(a)} vs {len(b)}"
        for i, (x, y) in enumerate(zip(a, b)):
            d = _first_diff(x, y, f"{path}[{i}]")
            if d:
                return d
        return ""
    if a == b or (isinstance(a, float) and isinstance(b, float) and a != a and b != b):
        return ""
    return f"{path}: {a!r} vs {b!r}"


def _field_of(diff: str) -> str:
    """Stable key for a difference: the field path without indices."""
    import re
    p = diff.split(":")[0]
    p = re.sub(r"\[\d+\]", "[]", p)
    p = re.sub(r"[0-9a-f]{8}-[0-9a-f-]{27}", "<uuid>", p)
    return p[:80]


def _outcome_key(oc: dict, rr: dict) -> dict:
    if oc["ok"]:
        base = {"ok": True, "data": oc["data"], "context": oc["context"]}
    else:
        base = {"ok": False, "exc_type": oc["exc_type"], "exc_msg": oc["exc_msg"], "failing_node": len(rr["exec_log"]) - 1}
    base["leaf_log"] = [[iv["node"], iv["cls"], iv["kwargs"], iv["data"]] for iv in rr["invocations"]]
    return base


def _child_main() -> int:
    """Fresh interpreter under another PYTHONHASHSEED: one traced run of A; prints its normalised records."""
    harness.setup_process()
    req = json.loads(sys.stdin.read())
    sc, seed, detail = req["sc"], req["seed"], req["detail"]
    w = SimWorld(seed ^ 0xC10, lane="c10child")
    w.remote_exec = bool(sc.get("remote_exec"))
    try:
        if sc.get("py_seed") is not None:
            import random as _pyrandom
            _pyrandom.seed(sc["py_seed"])
        rr = harness.run_scenario(sc["A"], w, trace_mode="file", detail=detail, name="child")
        recs, _ = harness.parse_lines(rr["emissions"])
        out = {"records": normalize(recs), "outcome": {k: v for k, v in _outcome_key(rr["outcome"], rr).items()}}
    finally:
        w.close()
    print("RESULT " + json.dumps(out, default=repr))
    return 0


CONC_TARGETS = ("semantiva/trace/_utils.py", "semantiva/trace/drivers/jsonl.py", "semantiva/trace/delta_collector.py",
                "semantiva/execution/orchestrator/orchestrator.py", "semantiva/trace/model.py")


def _child_concurrent() -> int:
    """Fresh interpreter (nothing traced yet, every lazily initialised piece of module state cold): two caller threads each
    run configuration A on its own Pipeline object with its own trace driver, interleaved by the seeded scheduler at line
    granularity of the trace/orchestrator modules; then a third, sequential run. Prints the three normalised traces."""
    harness.setup_process()
    from .. import threads
    req = json.loads(sys.stdin.read())
    sc, seed, detail, conc = req["sc"], req["seed"], req["detail"], req["conc"]
    w = SimWorld(seed ^ 0xC0C, lane="c10conc")
    w.quiet = True                      # nothing is recorded per invocation: the world's bookkeeping is not thread-aware
    try:
        from semantiva import Pipeline
        # module IMPORT is not part of the scenario (a thread pre-empted inside a module's top-level code would hold the
        # interpreter's import lock): every traced module is imported before the threads start; nothing is called
        import importlib
        for m in ("semantiva.trace._utils", "semantiva.trace.drivers.jsonl", "semantiva.trace.delta_collector",
                  "semantiva.execution.orchestrator.orchestrator", "semantiva.trace.model"):
            try:
                importlib.import_module(m)
            except ImportError:
                pass            # module layout differs: fewer pre-emption points, nothing else
        sched = threads.Scheduler(conc["sched_seed"], targets=CONC_TARGETS, strategy=dict(conc["strategy"], est_steps=4000), max_steps=2_000_000)
        outcomes: dict = {}

        def runner(tag):
            def run():
                p = Pipeline(copy.deepcopy(sc["A"]["nodes"]), logger=harness.quiet_logger(), trace=harness.make_trace("file", detail, tag))
                oc = harness.outcome_of(lambda: p.process(harness.make_payload(sc["A"])))
                outcomes[tag] = {k: v for k, v in oc.items() if k in ("ok", "data", "context", "exc_type", "exc_msg")}
            return run

        with threads.Installed(sched, []):
            sched.spawn("t1", runner("conc_t1"))
            sched.spawn("t2", runner("conc_t2"))
            outcome = sched.run(wall_timeout=100.0)
        errs = [f"{n}: {type(e).__name__}: {e}" for n, e in sched.task_errors]
        runner("conc_seq")()
        traces = {}
        for tag in ("conc_t1", "conc_t2", "conc_seq"):
            recs = []
            path = os.path.join(w.sandbox, f"{tag}.ser.jsonl")
            if os.path.exists(path):
                with open(path) as f:
                    recs = [json.loads(ln) for ln in f if ln.strip()]
            traces[tag] = normalize(recs)
        inside = sum(1 for s_ in sched.switches if s_[1] in ("_utils.py", "jsonl.py", "orchestrator.py", "delta_collector.py", "model.py"))
        out = {"traces": traces, "outcomes": outcomes, "sched_outcome": outcome, "task_errors": errs, "switches": len(sched.switches),
               "switches_inside": inside, "steps": sched.steps}
    finally:
        w.close()
    print("RESULT " + json.dumps(out, default=repr))
    return 0


def _concurrent_process(sc: dict, seed: int, detail: str) -> dict:
    p = subprocess.run([sys.executable, "-m", "svsim.props.c10", "child_concurrent"],
                       input=json.dumps({"sc": {"A": sc["A"]}, "seed": seed, "detail": detail, "conc": sc["concurrent"]}),
                       env=dict(os.environ), capture_output=True, text=True)
    for line in p.stdout.splitlines():
        if line.startswith("RESULT "):
            return json.loads(line[7:])
    raise RuntimeError(f"fresh interpreter (concurrent first runs) failed: {p.stdout[-800:]} {p.stderr[-1500:]}")


def _other_process(sc: dict, seed: int, detail: str) -> dict:
    env = dict(os.environ, PYTHONHASHSEED=str(sc["hashseed"]))
    p = subprocess.run([sys.executable, "-m", "svsim.props.c10", "child"], input=json.dumps({"sc": sc, "seed": seed, "detail": detail}),
                       env=env, capture_output=True, text=True)
    for line in p.stdout.splitlines():
        if line.startswith("RESULT "):
            return json.loads(line[7:])
    raise RuntimeError(f"fresh interpreter failed: {p.stdout[-800:]} {p.stderr[-1500:]}")


def execute(sc: dict, seed: int) -> dict:
    stats: dict = {}
    viols: list[dict] = []
    w = SimWorld(seed, lane="c10")
    w.remote_exec = bool(sc.get("remote_exec"))
    try:
        reused = {}
        last_result: dict = {}
        a_untraced = []
        a_traced: dict[str, list] = {}
        n_reuse = 0
        shared_orch = None
        for i, (how, which, detail) in enumerate(sc["ops"]):
            s = sc[which]
            if sc.get("py_seed") is not None:
                import random as _pyrandom
                _pyrandom.seed(sc["py_seed"])          # the caller's own seeding, before every run (traced or not)
            if how in ("shared", "shared_variant"):
                from semantiva import Pipeline
                from ..executor import RecordingExecutor, SvOrchestrator, SvTransport
                if shared_orch is None:
                    shared_orch = SvOrchestrator(RecordingExecutor())
                cfg = sc["variant"] if how == "shared_variant" else s
                p_sh = Pipeline(copy.deepcopy(cfg["nodes"]), logger=harness.quiet_logger(), orchestrator=shared_orch, transport=SvTransport())
                rr = harness.run_scenario(dict(cfg, faults=[]), w, trace_mode="file", detail=detail, pipeline=p_sh, name=f"o{i}")
                stats["subruns"] = stats.get("subruns", 0) + 1
                stats["probe.orchestrator_shared_with_sibling_config"] = 1
                if how == "shared_variant":
                    continue
                recs, _ = harness.parse_lines(rr["emissions"])
                a_traced.setdefault(detail, []).append((i, "shared_orchestrator", _outcome_key(rr["outcome"], rr), normalize(recs)))
                continue
            if how == "untraced":
                rr = harness.run_scenario(s, w, trace_mode="none", name=f"o{i}")
            elif how == "fresh":
                rr = harness.run_scenario(s, w, trace_mode=("file", "dir", "dotdir")[i % 3], detail=detail, name=f"o{i}")
            elif how == "reuse_feedback":
                from semantiva import Payload
                from semantiva.context_processors import ContextType
                if which not in reused:
                    reused[which] = harness.make_pipeline(s["nodes"])
                prev = last_result.get(which)
                fed = None
                if prev is not None and hasattr(prev.data, "data") and isinstance(prev.data.data, float):
                    prev.data.data = float(s["init_data"])          # same object, value reset in place
                    fed = Payload(prev.data, ContextType(copy.deepcopy(s["context"])))
                    stats["probe.result_object_fed_back"] = stats.get("probe.result_object_fed_back", 0) + 1
                rr = harness.run_scenario(s, w, trace_mode="file", detail=detail, pipeline=reused[which], name=f"o{i}", payload=fed)
                how = "reuse"
            else:
                if which not in reused:
                    reused[which] = harness.make_pipeline(s["nodes"])
                else:
                    n_reuse += 1
                    stats["probe.reused_pipeline_second_traced_run"] = stats.get("probe.reused_pipeline_second_traced_run", 0) + 1
                    if any("derive" in n for n in s["nodes"]):
                        stats["probe.reused_pipeline_with_sweep"] = stats.get("probe.reused_pipeline_with_sweep", 0) + 1
                rr = harness.run_scenario(s, w, trace_mode="file", detail=detail, pipeline=reused[which], name=f"o{i}")
            stats["subruns"] = stats.get("subruns", 0) + 1
            if how == "reuse" and rr["outcome"]["ok"]:
                last_result[which] = rr["outcome"]["payload"]
            if which == "B":
                stats["probe.history_contains_other_config"] = stats.get("probe.history_contains_other_config", 0) + 1
                continue
            ok = _outcome_key(rr["outcome"], rr)
            if how == "untraced":
                a_untraced.append((i, ok))
            else:
                recs, _ = harness.parse_lines(rr["emissions"])
                a_traced.setdefault(detail, []).append((i, how, ok, normalize(recs)))
        if sc.get("in_place_append"):
            stats["probe.non_json_value_appended_in_place_to_a_context_list"] = 1
        if sc.get("equal_values"):
            stats["probe.equal_but_differently_typed_context_values_in_history"] = 1
        if sc.get("py_seed") is not None:
            stats["probe.stochastic_processor_with_seeded_global_prng"] = 1
        if sc.get("fail") and "+unknown_processor_later" in sc["fail"][0]:
            stats["probe.configuration_with_two_defects"] = 1
        if sc.get("fail"):
            stats["probe.failing_subject"] = 1
            stats[f"fault.{sc['fail'][0]}"] = 1
        # (a) "Attaching a trace driver, at any detail level, never changes what a run returns or raises."
        ref_i, ref = a_untraced[0]
        for i, ok in a_untraced[1:]:
            if harness.canon(ok) != harness.canon(ref):
                viols.append(oracles.V("outcome", "untraced_runs_differ", f"op {i} vs op {ref_i}: {_first_diff(ref, ok)}"))
        for detail, runs in a_traced.items():
            for i, how, ok, _n in runs:
                if harness.canon(ok) != harness.canon(ref):
                    d = _first_diff(ref, ok)
                    viols.append(oracles.V("outcome", f"traced_ne_untraced:{_field_of(d)}", f"op {i} ({how}, detail={detail}) vs untraced op {ref_i}: {d}"))
                    break
        # (b) "Running the same configuration on the same payload twice yields traces that are identical after removing
        #      the documented volatile fields ..., regardless of what ran before in the process."
        for detail, runs in a_traced.items():
            i0, how0, _ok0, n0 = runs[0]
            for i, how, _ok, n in runs[1:]:
                d = _first_diff(n0, n)
                if d:
                    viols.append(oracles.V("reproducible", f"trace_differs:{_field_of(d)}", f"op {i} ({how}) vs op {i0} ({how0}), detail={detail}: {d}"))
                    break
        # the same run-space configuration launched twice through the CLI with a reproducible launch id: the two traces
        # (all record types) are identical modulo the volatile fields
        if sc.get("cli_pair") and sc["A"].get("init_data") is None and not sc.get("fail"):
            pair = []
            for k in range(2):
                rs = {"blocks": [{"mode": "by_position", "context": {"rs_pair": [1.0, 2.0]}}]}
                harness.write_cli_config(sc["A"], f"pair{k}.yaml", trace=harness.trace_cfg("file", "hash", f"pair{k}"), run_space=rs)
                argv = ["run", f"pair{k}.yaml"] + sc["cli_pair"]
                for kk, vv in sc["A"]["context"].items():
                    argv += ["--context", f"{kk}={harness.cli_value(vv)}"]
                first = len(w.emissions)
                if sc.get("py_seed") is not None:
                    import random as _pyrandom
                    _pyrandom.seed(sc["py_seed"])
                r = harness.run_cli(argv)
                recs, _ = harness.parse_lines(w.emissions[first:])
                pair.append((r["code"], normalize(recs)))
            stats["probe.cli_launch_repeated_with_same_launch_id"] = 1
            # (a) again, through the CLI: the same launch without any trace configuration ends the same way
            harness.write_cli_config(sc["A"], "pair_untraced.yaml", trace=None, run_space=rs)
            if sc.get("py_seed") is not None:
                import random as _pyrandom
                _pyrandom.seed(sc["py_seed"])
            ru = harness.run_cli(["run", "pair_untraced.yaml"] + argv[2:])
            if ru["code"] != pair[0][0]:
                viols.append(oracles.V("outcome", "cli_exit_code_traced_ne_untraced", f"`semantiva run {' '.join(sc['cli_pair'])}`: exit {pair[0][0]} with a trace "
                                       f"driver configured, exit {ru['code']} without (stderr {ru['stderr'][:160]!r})"))
            d = _first_diff(pair[0][1], pair[1][1]) or ("" if pair[0][0] == pair[1][0] else f"exit codes {pair[0][0]} vs {pair[1][0]}")
            if d:
                viols.append(oracles.V("reproducible", f"cli_launch_trace_differs:{_field_of(d)}", f"`semantiva run {' '.join(sc['cli_pair'])}` twice in one process: {d}"))
        # the "second" run may just as well happen in another process (its own hash seed): same trace modulo volatile fields
        if sc.get("hashseed") is not None and a_traced:
            detail = sorted(a_traced)[0]
            other = _other_process(sc, seed, detail)
            stats["probe.other_process_other_hashseed"] = 1
            i0, how0, _ok0, n0 = a_traced[detail][0]
            mine = json.loads(json.dumps(n0, default=repr))
            d = _first_diff(mine, other["records"])
            if d:
                viols.append(oracles.V("reproducible", f"trace_differs_across_processes:{_field_of(d)}",
                                       f"op {i0} ({how0}) vs a fresh interpreter with PYTHONHASHSEED={sc['hashseed']}, detail={detail}: {d}"))
        if sc.get("concurrent") and a_traced:
            detail = sorted(a_traced)[0]
            cr = _concurrent_process(sc, seed, detail)
            stats["probe.concurrent_first_traced_runs_in_fresh_interpreter"] = 1
            stats["concurrent_switches_inside_trace_code"] = cr["switches_inside"]
            if cr["sched_outcome"] != "completed" or cr["task_errors"]:
                viols.append(oracles.V("concurrent", f"tasks:{cr['sched_outcome']}", f"two concurrent traced runs: {cr['sched_outcome']} {cr['task_errors'][:2]}"))
            else:
                seq = cr["traces"]["conc_seq"]
                for tag in ("conc_t1", "conc_t2"):
                    d = _first_diff(seq, cr["traces"][tag])
                    if d:
                        viols.append(oracles.V("reproducible", f"trace_of_concurrent_first_run_differs:{_field_of(d)}",
                                               f"fresh interpreter, two caller threads run A concurrently (detail={detail}); trace of {tag} vs a later "
                                               f"sequential run: {d}"))
                        break
                    if harness.canon(cr["outcomes"][tag]) != harness.canon(cr["outcomes"]["conc_seq"]):
                        viols.append(oracles.V("outcome", "concurrent_run_outcome_differs", f"{tag}: {cr['outcomes'][tag]} vs {cr['outcomes']['conc_seq']}"))
                        break
        seen, uniq = set(), []
        for v in viols:
            kk = (v["clause"], v["key"])
            if kk not in seen:
                seen.add(kk)
                uniq.append(v)
        ad = _digest({"n": sc["A"]["nodes"], "c": sc["A"]["context"], "f": sc.get("fail")})
        hd = _digest(sc["ops"])
        nontriv = [f"{ad}/{hd}"] if any(len(r) >= 2 for r in a_traced.values()) and a_untraced else []
        rd = w.clock
        stats["sim_seconds"] = stats.get("sim_seconds", 0.0) + 0.0265 * rd.reads
        sample = {"A": sc["A"]["nodes"], "A_context": sc["A"]["context"], "fail": sc.get("fail"), "ops": sc["ops"]}
        return {"violations": uniq, "stats": stats, "digests": [f"{ad}/{hd}"], "nontrivial": nontriv, "sample": sample,
                "digest": w.digest()}
    finally:
        w.close()


def shrink_candidates(sc: dict):
    if sc.get("hashseed") is not None:
        yield dict(sc, hashseed=None)
    if sc.get("cli_pair"):
        yield dict(sc, cli_pair=None)
    if sc.get("concurrent"):
        yield dict(sc, concurrent=None)
    ops = sc["ops"]
    for i in reversed(range(len(ops))):
        if len(ops) <= 2:
            break
        cand = ops[:i] + ops[i + 1:]
        if not any(o[0] == "untraced" and o[1] == "A" for o in cand):
            continue
        yield dict(sc, ops=cand)
    a = sc["A"]
    if sc.get("fail") is None and sc.get("A_truth"):
        n = len(a["nodes"])
        for i in reversed(range(n)):
            if n <= 1:
                break
            b = copy.deepcopy(a)
            del b["nodes"][i]
            t = gen.recompute_truth(b)
            if t is None or any(x["missing"] or not x["type_ok"] for x in t):
                continue
            yield dict(sc, A=b)


if __name__ == "__main__":
    if len(sys.argv) > 1 and sys.argv[1] == "child":
        sys.exit(_child_main())
    if len(sys.argv) > 1 and sys.argv[1] == "child_concurrent":
        sys.exit(_child_concurrent())
