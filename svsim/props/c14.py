"""C14 - in-memory transport delivers every message exactly once, in channel order, to matching
subscriptions - under every interleaving of concurrent publishers and subscribers.

The real InMemorySemantivaTransport runs under the cooperative scheduler: publishers and
subscribers are simulated tasks (real threads, one baton), every line of in_memory.py/base.py is
a pre-emption point (incl. the defaultdict factory lambda and the subscription generator).
"""
from __future__ import annotations

import fnmatch
import hashlib
import json
import random

from .. import oracles, threads

LEVEL = "exploration"
RULE = ("seeded workloads: 2-3 publisher tasks (1-3 messages each, to existing and not-yet-existing channels, some sharing a "
        "fresh channel), 1-2 subscriber tasks (exact / wildcard patterns, 1-3 re-subscriptions, optional callback mode), final "
        "drain after all tasks finished; one of 10 schedule strategies per run (random walk p in {.02,.1,.3,.6}, PCT d in 0..3, "
        "bursty). distinct_nontrivial = distinct hashes of the context-switch trace (task, file:line, next task) among runs with "
        ">= 1 pre-emption inside transport code."
        " Further seeded dimensions: ?/[seq] patterns and channel names with tail relations, subscription closed early or by another task, transport close()/connect() by another sharer, quiescent per-pattern drain, callbacks that raise, a deep pre-published backlog (600-4500 messages). Seventh round: an asyncio consumer cancelled after a seeded number of loop steps.")
REAL_COMPONENTS = ["InMemorySemantivaTransport.publish/subscribe", "InMemorySubscription.__iter__/close", "transport.base.Message"]
STUB_COMPONENTS = ["threading.Lock/Thread as seen by in_memory.py (SimLock/SimThread)", "publisher/subscriber client tasks",
                   "scheduler (decides every thread switch)"]
ASSUMPTIONS = ["a thread switch inside a single C call (deque.append, dict get/set, list(d.items())) is not modelled; switches "
               "happen at line boundaries of the transport modules, including inside the defaultdict factory lambda",
               "per-consumer order only: cross-consumer receive order is not observable without perturbing the schedule"]
REQUIRED_PROBES = ["switch_inside_transport", "two_publishers_same_fresh_channel", "wildcard_subscription", "callback_mode",
                   "subscription_closed_early", "subscription_closed_by_other_task",
                   "transport_closed_and_reconnected", "callback_raised_in_runner_thread", "deep_backlog_before_first_consumer", "async_consumer_cancelled_mid_iteration", "consumer_published_to_the_channel_it_reads"]
CONFIG = {
    "quick": {"runs": 60000, "budget_s": 240, "timeout_s": 20, "per_fork": 25},
    "thorough": {"runs": 3000000, "budget_s": 1500, "timeout_s": 20, "per_fork": 50},
    "shrink_s": 40.0,
}
TARGETS = ("execution/transport/in_memory.py", "execution/transport/base.py")
CHANNELS = ["jobs.a.cfg", "jobs.b.cfg", "jobs.a.status", "data.x", "data.y",
            "retry.jobs.a.cfg", "xdata.x", "jobs.a.cfg.bak",        # names that contain other names / patterns as a suffix or prefix
            # channel names are free-form text: separators, blanks and case are part of the name, not syntax
            "cell.1,2", "cell.1", "2", "Jobs.A.cfg", " data.x", "data.x|data.y"]
PATTERNS = ["*", "jobs.*", "jobs.*.cfg", "jobs.a.*", "data.?", "jobs.a.cfg", "data.x", "data.[xy]", "jobs.?.cfg", "jobs.[ab].status",
            "cell.1,2", "cell.1,*", "cell.*", "data.x|data.y", " data.x", "Jobs.*"]


class CallbackBoom(Exception):
    """Raised by a simulated user's callback (callback-mode subscription)."""


def generate(rng: random.Random, tier: str, seed: int) -> dict:
    npub = rng.randint(2, 3)
    nsub = rng.randint(1, 2)
    existing = rng.sample(CHANNELS, rng.randint(0, 2))
    shared_fresh = rng.choice([c for c in CHANNELS if c not in existing])
    pubs = []
    for p in range(npub):
        msgs = []
        for _ in range(rng.randint(1, 3)):
            r = rng.random()
            if r < 0.5:
                msgs.append(shared_fresh)
            elif existing and r < 0.75:
                msgs.append(rng.choice(existing))
            else:
                msgs.append(rng.choice(CHANNELS))
        pubs.append(msgs)
    subs = []
    for _ in range(nsub):
        subs.append({"pattern": rng.choice(PATTERNS), "rounds": rng.randint(1, 3), "callback": rng.random() < 0.2,
                     "pause": rng.choice([0.0, 0.0005, 0.003]),
                     "close_after": rng.choice([None, None, None, 1, 2]),    # close() the subscription after k messages
                     "closer": rng.random() < 0.2,                             # ANOTHER task close()s the subscription at some point
                     "cb_raises_at": rng.choice([None, None, 1, 2]),
                     "republish_at": rng.choice([None, None, None, 1, 2])})   # iterator mode: while handling its k-th message the consumer publishes a follow-up to that same channel         # callback mode: the user's callback raises on its k-th message
    return {"existing": existing, "pubs": pubs, "subs": subs, "strategy": rng.choice(threads.STRATEGIES),
            # publishers far ahead of a late subscriber: a deep backlog on one channel before any consumer exists
            "bulk": {"channel": rng.choice(CHANNELS), "n": rng.choice([600, 1100, 2200, 4500])} if rng.random() < 0.02 else None,
            # an asyncio consumer (`async for`) that is cancelled after a seeded number of event-loop steps
            "async_cancel": {"n": rng.randint(2, 6), "cancel_after": rng.randint(0, 14), "pattern": rng.choice(["data.async", "data.*", "*"])}
            if rng.random() < 0.08 else None,
            "reconnect": rng.random() < 0.15,       # some task calls the documented no-ops close() / connect() on the shared transport
            "sched_seed": rng.getrandbits(48), "choices": None}


def execute(sc: dict, seed: int) -> dict:
    from semantiva.context_processors import ContextType
    from semantiva.execution.transport import in_memory as im

    strat = dict(sc["strategy"])
    strat.setdefault("est_steps", 250)
    bulk = sc.get("bulk")
    sched = threads.Scheduler(sc["sched_seed"], targets=TARGETS, strategy=strat, choices=sc.get("choices"),
                              max_steps=30000 + (60 * bulk["n"] * (1 + len(sc["subs"])) if bulk else 0))
    stats: dict = {}
    published: list[list] = []
    received: dict[str, list] = {}
    bad_pattern: list = []
    with threads.Installed(sched, [im]):
        tr = im.InMemorySemantivaTransport()
        tr.connect()
        # pre-existing channels (created before any concurrency)
        for ch in sc["existing"]:
            tr.publish(ch, data=["pre", ch, 0], context=ContextType())
            published.append(["pre", ch, 0])

        if bulk:
            for i in range(bulk["n"]):
                item = ["bulk", bulk["channel"], i]
                tr.publish(bulk["channel"], data=item, context=ContextType())
                published.append(item)
            stats["probe.deep_backlog_before_first_consumer"] = 1

        def publisher(pid: int, chans: list[str]):
            def run():
                counters: dict[str, int] = {}
                for ch in chans:
                    n = counters.get(ch, 0)
                    counters[ch] = n + 1
                    item = [f"p{pid}", ch, n]
                    published.append(item)
                    sched.log("publish", item)
                    tr.publish(ch, data=item, context=ContextType())
            return run

        def subscriber(sid: int, spec: dict):
            name = f"s{sid}"
            received[name] = []

            def take(msg, who=name):
                received.setdefault(who, []).append(msg.data)
                sched.log("receive", who, msg.data)
                if not fnmatch.fnmatch(msg.data[1], spec["pattern"]):
                    bad_pattern.append((who, spec["pattern"], msg.data))
                if who != name and spec.get("cb_raises_at") is not None and len(received[who]) == spec["cb_raises_at"]:
                    # the message HAS been handed to this consumer; the consumer's own code then fails (its runner thread dies)
                    sched.probe("callback_raised")
                    raise CallbackBoom(f"user callback of {who} failed on {msg.data}")

            def run():
                for r in range(spec["rounds"]):
                    if spec["callback"]:
                        cbname = f"{name}cb{r}"
                        received[cbname] = []
                        tr.subscribe(spec["pattern"], callback=lambda m, w=cbname: take(m, w))
                    else:
                        sub = tr.subscribe(spec["pattern"])
                        if spec.get("closer"):
                            sched.spawn(f"closer{sid}_{r}", lambda s=sub: (threads.sim_sleep(0.0003), s.close(), sched.probe("closed_by_other_task")))
                        taken = 0
                        for msg in sub:
                            take(msg)
                            taken += 1
                            if spec.get("republish_at") == taken and r == 0 and msg.data[0] != f"re{sid}":
                                # a consumer that answers on the channel it is reading from (request/ack on one channel)
                                item = [f"re{sid}", msg.data[1], 0]
                                published.append(item)
                                sched.log("publish", item)
                                tr.publish(msg.data[1], data=item, context=ContextType())
                                sched.probe("consumer_published_to_its_own_channel")
                            if spec.get("close_after") is not None and taken >= spec["close_after"]:
                                sub.close()          # early close: what was not taken must stay available to others
                                sched.probe("early_close")
                        sub.close()
                    if spec["pause"]:
                        threads.sim_sleep(spec["pause"])
            return run

        for i, chans in enumerate(sc["pubs"]):
            sched.spawn(f"pub{i}", publisher(i, chans))
        for i, spec in enumerate(sc["subs"]):
            sched.spawn(f"sub{i}", subscriber(i, spec))
        if sc.get("reconnect"):
            def reconnector():
                threads.sim_sleep(0.0004)
                tr.close()           # "No real cleanup needed for in-memory" - another participant shutting down
                tr.connect()
                sched.probe("transport_closed_and_reconnected")
            sched.spawn("reconnector", reconnector)
        outcome = sched.run(wall_timeout=15.0)
        if outcome == "completed" and sc.get("async_cancel"):
            # single-threaded asyncio phase on the same transport: cancellation at an arbitrary suspension point is the "crash";
            # whatever the consumer was not handed must still be queued afterwards
            import asyncio
            ac = sc["async_cancel"]
            for i in range(ac["n"]):
                item = ["async", "data.async", i]
                tr.publish("data.async", data=item, context=ContextType())
                published.append(item)
            received["async_consumer"] = []

            async def consume():
                async for msg in tr.subscribe(ac["pattern"]):
                    received["async_consumer"].append(msg.data)      # handed over: it counts from here on
                    await asyncio.sleep(0)

            async def main():
                task = asyncio.ensure_future(consume())
                for _ in range(ac["cancel_after"]):
                    await asyncio.sleep(0)
                    if task.done():
                        break
                if not task.done():
                    task.cancel()
                    stats["fault.consumer_task_cancelled"] = 1
                try:
                    await task
                except asyncio.CancelledError:
                    pass

            loop = asyncio.new_event_loop()
            try:
                loop.run_until_complete(main())
            finally:
                loop.close()
            stats["probe.async_consumer_cancelled_mid_iteration"] = stats.get("fault.consumer_task_cancelled", 0)
        # final drain (single-threaded, after all tasks finished)
        drained = []
        unmatched_left: list = []
        if outcome == "completed":
            # "delivered to a consumer of a matching subscription": once everything is quiescent, a fresh subscription
            # with pattern P yields EVERY remaining message whose channel matches P
            for i, spec in enumerate(sc["subs"]):
                got = [m.data for m in tr.subscribe(spec["pattern"])]
                received[f"drain_{i}"] = got
                for m in got:
                    if not fnmatch.fnmatch(m[1], spec["pattern"]):
                        bad_pattern.append((f"drain_{i}", spec["pattern"], m))
            for msg in tr.subscribe("*"):
                drained.append(msg.data)
            for i, spec in enumerate(sc["subs"]):
                unmatched_left += [(spec["pattern"], m) for m in drained if fnmatch.fnmatch(m[1], spec["pattern"])]
        received["drain"] = drained
    viols = []
    if outcome != "completed":
        viols.append(oracles.V("scheduler", f"{outcome}", f"simulation ended with {outcome}; events tail {sched.events[-5:]}"))
    for name, e in sched.task_errors:
        if isinstance(e, CallbackBoom):
            continue        # the injected failure of the user's own callback, ending its runner thread
        viols.append(oracles.V("task_error", type(e).__name__, f"task {name} raised {type(e).__name__}: {e}"))
    if outcome == "completed":
        key = lambda it: json.dumps(it)  # noqa: E731
        pub_count: dict[str, int] = {}
        for it in published:
            pub_count[key(it)] = pub_count.get(key(it), 0) + 1
        rec_count: dict[str, int] = {}
        for who, items in received.items():
            for it in items:
                rec_count[key(it)] = rec_count.get(key(it), 0) + 1
        # "every message published ... is delivered to exactly one consumer ... - never lost, never duplicated"
        lost = sorted(k for k in pub_count if rec_count.get(k, 0) < pub_count[k])
        dup = sorted(k for k in rec_count if rec_count[k] > pub_count.get(k, 0))
        if lost:
            fresh = [c for c in {json.loads(k)[1] for k in lost} if c not in sc["existing"]]
            viols.append(oracles.V("exactly_once", "lost:fresh_channel" if fresh else "lost:existing_channel",
                                   f"published but never delivered ({len(lost)}): {lost[:6]}"))
        if dup:
            viols.append(oracles.V("exactly_once", "duplicated", f"delivered more often than published ({len(dup)}): {dup[:6]}"))
        # "messages of one channel published by one thread are received in publication order"
        for who, items in received.items():
            last: dict[tuple, int] = {}
            for it in items:
                k2 = (it[0], it[1])
                if k2 in last and it[2] < last[k2]:
                    viols.append(oracles.V("order", "per_channel_order", f"consumer {who} received {it} after #{last[k2]} of the same publisher/channel"))
                    break
                last[k2] = it[2]
        # "a subscription only yields messages whose channel matches its pattern"
        if bad_pattern:
            viols.append(oracles.V("pattern", "non_matching_delivery", f"{bad_pattern[:3]}"))
        if unmatched_left:
            viols.append(oracles.V("pattern", "matching_message_not_yielded", f"a quiescent subscription left matching messages behind: {unmatched_left[:3]}"))
    inside = [s for s in sched.switches if s[1] in ("in_memory.py", "base.py")]
    if inside:
        stats["probe.switch_inside_transport"] = 1
    fresh_counts: dict[str, set] = {}
    for i, chans in enumerate(sc["pubs"]):
        for ch in chans:
            if ch not in sc["existing"]:
                fresh_counts.setdefault(ch, set()).add(i)
    if any(len(v) >= 2 for v in fresh_counts.values()):
        stats["probe.two_publishers_same_fresh_channel"] = 1
    if any(any(c in s["pattern"] for c in "*?") for s in sc["subs"]):
        stats["probe.wildcard_subscription"] = 1
    if any(s["callback"] for s in sc["subs"]):
        stats["probe.callback_mode"] = 1
    if sched.probes.get("consumer_published_to_its_own_channel"):
        stats["probe.consumer_published_to_the_channel_it_reads"] = 1
    if sched.probes.get("callback_raised"):
        stats["probe.callback_raised_in_runner_thread"] = 1
        stats["fault.consumer_callback_exception"] = sched.probes["callback_raised"]
    if sched.probes.get("transport_closed_and_reconnected"):
        stats["probe.transport_closed_and_reconnected"] = 1
    if sched.probes.get("closed_by_other_task"):
        stats["probe.subscription_closed_by_other_task"] = 1
    if sched.probes.get("early_close"):
        stats["probe.subscription_closed_early"] = 1
    if sched.probes.get("line_in_lambda"):
        stats["probe.line_in_queue_creation_lambda"] = 1
    stats["steps"] = sched.steps
    stats["switches"] = len(sched.switches)
    stats["sim_seconds"] = sched.now
    stats[f"strategy.{sc['strategy']['kind']}"] = 1
    sd = sched.switch_digest()
    seen, uniq = set(), []
    for v in viols:
        kk = (v["clause"], v["key"])
        if kk not in seen:
            seen.add(kk)
            uniq.append(v)
    res = {"violations": uniq, "stats": stats, "digests": [sd], "nontrivial": [sd] if inside else [],
           "digest": sched.digest(),
           "sample": {"existing": sc["existing"], "pubs": sc["pubs"], "subs": sc["subs"], "strategy": sc["strategy"],
                      "switches": len(sched.switches), "steps": sched.steps}}
    if uniq and sc.get("choices") is None:
        res["scenario_patch"] = {"choices": list(sched.choices)}
    return res


def shrink_candidates(sc: dict):
    # structural candidates change the workload, so they fall back to the seeded stream (choices=None) ...
    for cand in _structural_candidates(sc):
        yield dict(cand, choices=None)
    # ... then the recorded choice stream of the (smaller) failing run is minimised: fewer pre-emptions
    if isinstance(sc.get("choices"), list):
        for ch in threads.choice_shrink_candidates(sc["choices"]):
            yield dict(sc, choices=ch)


def _structural_candidates(sc: dict):
    # fewer tasks / messages
    for i in reversed(range(len(sc["subs"]))):
        yield dict(sc, subs=sc["subs"][:i] + sc["subs"][i + 1:])
    for i in reversed(range(len(sc["pubs"]))):
        if len(sc["pubs"]) > 1:
            yield dict(sc, pubs=sc["pubs"][:i] + sc["pubs"][i + 1:])
    for i, p in enumerate(sc["pubs"]):
        if len(p) > 1:
            for j in reversed(range(len(p))):
                yield dict(sc, pubs=sc["pubs"][:i] + [p[:j] + p[j + 1:]] + sc["pubs"][i + 1:])
    if sc["existing"]:
        yield dict(sc, existing=[])
    if sc.get("reconnect"):
        yield dict(sc, reconnect=False)
    if sc.get("async_cancel"):
        yield dict(sc, async_cancel=None)
    if sc.get("bulk"):
        yield dict(sc, bulk=None)
        if sc["bulk"]["n"] > 600:
            yield dict(sc, bulk=dict(sc["bulk"], n=sc["bulk"]["n"] // 2))
    for i, s in enumerate(sc["subs"]):
        if s["rounds"] > 1 or s["callback"] or s["pause"] or s.get("close_after") or s.get("closer") or s.get("cb_raises_at") or s.get("republish_at"):
            yield dict(sc, subs=sc["subs"][:i] + [dict(s, rounds=1, callback=False, pause=0.0, close_after=None, closer=False, cb_raises_at=None, republish_at=None)] + sc["subs"][i + 1:])
    if sc["strategy"].get("kind") != "pct" or sc["strategy"].get("d", 0) > 1:
        yield dict(sc, strategy={"kind": "pct", "d": 1})
