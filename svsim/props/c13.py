"""C13 - trace aggregation is order-independent and right for every partial trace.

Producer = the real runtime in the world (single traced runs and in-process CLI run-space
launches, succeeding and failing, file and directory output). The file seam's global emission
order defines the stream; a crash is simulated after EVERY emitted line (each prefix).
Consumer = the real TraceAggregator, fed each record set in emission order, in seeded
permutations, as k-way interleavings of per-file readers, and as arbitrary subsets; finalize is
also called mid-way and twice.
"""
from __future__ import annotations

import copy
import dataclasses
import hashlib
import json
import random

from .. import gen, harness, oracles
from ..world import SimWorld

EVAL_COUNTER = "crash_points"
EVAL_UNIT = "one crash point (prefix) of one produced trace, each delivered in ~20 orders"
LEVEL = "fault_enumeration"
RULE = ("seeded traces from real runs (single runs and CLI run-space launches incl. a failing run/node); crash point "
        "enumerated after every emitted line (all prefixes); per prefix: emission order, 6-12 seeded permutations, "
        "k-way per-file interleavings, mid-way + double finalize; plus seeded subsets for order-independence. "
        "distinct_nontrivial = distinct (trace digest, prefix length) pairs with >= 2 records checked under >= 3 orders."
        " Further seeded dimensions: retry launches sharing a launch id, records delivered one by one / as a list batch / as lazy one-shot streams. Seventh round: a standalone run in the same aggregator as a launch, another aggregator object that saw the full trace first, crash points in seeded order.")
REAL_COMPONENTS = ["TraceAggregator (ingest, finalize_run, finalize_launch, finalize_all)", "producer: Pipeline/orchestrator/"
                   "JsonlTraceDriver/CLI run loop/RunSpaceTraceEmitter"]
STUB_COMPONENTS = ["leaf processors", "RecordingExecutor", "SimClock/SimUUID", "delivery scheduler (harness)",
                   "40-line reference verdict over the record set"]
ASSUMPTIONS = ["a torn last line is dropped by any JSONL reader and equals the shorter prefix",
               "the empty prefix (no run known) is skipped - the statement does not define it",
               "lists in verdicts are compared as sets where the model documents no order"]
REQUIRED_PROBES = ["launch_trace", "failing_run_trace", "directory_mode_multi_file", "prefix_without_pipeline_end", "subset_without_pipeline_start",
                   "two_attempts_sharing_a_launch_id", "ingest_one_by_one", "ingest_many_list", "ingest_many_lazy_stream", "ingest_many_two_lazy_batches", "launch_and_standalone_run_in_one_aggregator", "other_aggregator_saw_full_trace_first"]
CONFIG = {
    "quick": {"runs": 2000, "budget_s": 240, "timeout_s": 120},
    "thorough": {"runs": 50000, "budget_s": 1500, "timeout_s": 180},
    "shrink_s": 40.0,
}


def _digest(obj) -> str:
    return hashlib.sha256(json.dumps(obj, sort_keys=True, default=repr).encode()).hexdigest()[:12]


def generate(rng: random.Random, tier: str, seed: int) -> dict:
    base = gen.gen_pipeline(rng, max_nodes=6)
    kind = rng.choice(["single", "single", "launch", "launch"])
    sc = {"base": base, "kind": kind, "mode": rng.choice(["file", "dir"]), "detail": rng.choice(harness.DETAILS),
          "order_seed": rng.getrandbits(32), "faults": []}
    nn = len(base["nodes"])
    if kind == "single":
        if rng.random() < 0.5:
            sc["faults"] = [{"site": "executor_pre", "kind": rng.choice(["exception", "abort"]), "node": rng.randrange(nn)}]
    else:
        keys = sorted(base["context"])[:3]
        rsd = gen.gen_run_space(rng, keys, allow_source=False)
        sc["run_space"] = rsd["run_space"]
        # keys supplied by the run space are removed from --context
        sc["attempt"] = rng.choice([1, 1, 2, 3])
        sc["retry"] = rng.random() < 0.35        # a second launch with the SAME launch id and the next attempt number
        sc["retry_same_attempt"] = sc["retry"] and rng.random() < 0.4    # ... or the operator just re-runs the same command: same id, SAME attempt
        sc["standalone_too"] = rng.random() < 0.35   # the same aggregator also sees a standalone run (its own file, no launch keys)
        if rng.random() < 0.5:
            sc["faults"] = [{"site": "executor_pre", "kind": "exception", "node": rng.randrange(nn), "run": rng.randrange(3)}]
    return sc


def produce(sc: dict, w) -> list[dict]:
    """Run the producer; return records in global emission order (each with _file)."""
    base = sc["base"]
    w.set_faults(sc.get("faults", []))
    if sc["kind"] == "single":
        rr = harness.run_scenario(dict(base, faults=sc.get("faults", [])), w, trace_mode=sc["mode"], detail=sc["detail"])
        recs, _ = harness.parse_lines(rr["emissions"])
        return recs
    rs = sc["run_space"]
    rs_keys = set()
    for b in rs["blocks"]:
        rs_keys.update((b.get("context") or {}).keys())
    harness.write_cli_config(base, "cfg.yaml", trace=harness.trace_cfg(sc["mode"], sc["detail"]), run_space=rs)
    argv = ["run", "cfg.yaml", "--run-space-attempt", str(sc.get("attempt", 1))]
    if sc.get("retry"):
        argv += ["--run-space-launch-id", "launch-shared-by-attempts"]
    for k, v in base["context"].items():
        if k not in rs_keys:
            argv += ["--context", f"{k}={harness.cli_value(v)}"]
    first = len(w.emissions)
    harness.run_cli(argv)
    if sc.get("retry"):
        # the retry: same launch id, next attempt, its own driver instance (sequence numbers restart) and output path
        harness.write_cli_config(base, "cfg2.yaml", trace=harness.trace_cfg(sc["mode"], sc["detail"], "retry"), run_space=rs)
        argv2 = ["run", "cfg2.yaml"] + argv[2:]
        argv2[argv2.index("--run-space-attempt") + 1] = str(sc.get("attempt", 1) + (0 if sc.get("retry_same_attempt") else 1))
        w.set_faults([])
        harness.run_cli(argv2)
    if sc.get("standalone_too"):
        w.set_faults([])
        harness.run_scenario(dict(base, faults=[]), w, trace_mode="file", detail=sc["detail"], name="solo")
    recs, _ = harness.parse_lines(w.emissions[first:])
    return recs


INGEST_HOW: dict[int, int] = {}


def verdicts(records: list[dict], *, midway: int | None = None, twice: bool = False) -> dict:
    from semantiva.trace.aggregation.aggregator import TraceAggregator
    agg = TraceAggregator()
    clean = [{k: v for k, v in r.items() if not k.startswith("_")} for r in records]
    # the records reach the aggregator through every documented entry: one by one, as a list batch, as a lazy one-shot
    # stream (a JSONL reader / a merge of per-run files is an iterator), or in two batches
    how = (len(clean) + (midway or 0) + (1 if twice else 0)) % 4
    cut = midway if midway is not None else (len(clean) // 2 if how == 3 else None)
    parts = [clean] if cut is None else [clean[:cut], clean[cut:]]
    for pi, part in enumerate(parts):
        if pi == 1 and midway is not None:
            agg.finalize_all()
        if how == 0:
            for r in part:
                agg.ingest(r)
        elif how == 1:
            agg.ingest_many(list(part))
        else:
            agg.ingest_many(r for r in part)
    INGEST_HOW[how] = INGEST_HOW.get(how, 0) + 1
    runs, launches = agg.finalize_all()
    if twice:
        runs, launches = agg.finalize_all()
    out = {"runs": {}, "launches": {}}
    for rc in runs:
        d = dataclasses.asdict(rc)
        for k in ("problems", "missing_nodes", "orphan_nodes", "nonterminal_nodes"):
            d[k] = sorted(d[k])
        out["runs"][rc.run_id] = d
    for lc in launches:
        d = dataclasses.asdict(lc)
        d["problems"] = sorted(d["problems"])
        out["launches"][f"{lc.run_space_launch_id}#{lc.run_space_attempt}"] = d
    return out


def reference(records: list[dict]) -> dict:
    """The documented verdicts, computed over the record SET of a producer prefix."""
    runs: dict[str, dict] = {}
    launches: dict[str, dict] = {}

    def run(rid):
        return runs.setdefault(rid, {"start": False, "end": False, "canon": None, "sers": set(), "launch": None})

    def launch(lid, att):
        return launches.setdefault(f"{lid}#{att}", {"start": False, "end": False, "runs": set()})

    for r in records:
        t = r.get("record_type")
        if t == "pipeline_start":
            x = run(r["run_id"])
            x["start"] = True
            x["canon"] = {n["node_uuid"] for n in (r.get("pipeline_spec_canonical") or {}).get("nodes", [])}
            if r.get("run_space_launch_id") is not None and r.get("run_space_attempt") is not None:
                launch(r["run_space_launch_id"], r["run_space_attempt"])["runs"].add(r["run_id"])
        elif t == "pipeline_end":
            run(r["run_id"])["end"] = True
        elif t == "ser":
            run(r["identity"]["run_id"])["sers"].add(r["identity"]["node_id"])
        elif t == "run_space_start":
            launch(r["run_space_launch_id"], r["run_space_attempt"])["start"] = True
        elif t == "run_space_end":
            launch(r["run_space_launch_id"], r["run_space_attempt"])["end"] = True
    out = {"runs": {}, "launches": {}}
    for rid, x in runs.items():
        problems = []
        if not x["start"]:
            problems.append("missing_pipeline_start")
        if not x["end"]:
            problems.append("missing_pipeline_end")
        status = "complete" if (x["start"] and x["end"]) else "partial"
        missing = sorted((x["canon"] or set()) - x["sers"])
        out["runs"][rid] = {"status": status, "problems": sorted(problems), "missing_nodes": missing, "orphan_nodes": []}
    for lk, x in launches.items():
        counts = {"complete": 0, "partial": 0, "invalid": 0}
        for rid in x["runs"]:
            counts[out["runs"][rid]["status"]] += 1
        problems = []
        if not x["start"]:
            problems.append("missing_run_space_start")
        if not x["end"]:
            problems.append("missing_run_space_end")
        status = "complete" if (x["start"] and x["end"] and counts["partial"] == 0 and counts["invalid"] == 0) else "partial"
        out["launches"][lk] = {"status": status, "problems": sorted(problems), "runs_by_status": counts, "runs_total": len(x["runs"])}
    return out


def compare_ref(got: dict, ref: dict, where: str) -> list[dict]:
    out = []
    if set(got["runs"]) != set(ref["runs"]):
        out.append(oracles.V("prefix_verdict", "run_set", f"{where}: runs {sorted(got['runs'])} vs {sorted(ref['runs'])}"))
        return out
    for rid, want in ref["runs"].items():
        g = got["runs"][rid]
        for fld in ("status", "problems", "missing_nodes", "orphan_nodes"):
            if g[fld] != want[fld]:
                out.append(oracles.V("prefix_verdict", f"run_{fld}", f"{where}: run {rid[:12]} {fld}={g[fld]} documented {want[fld]}"))
    if set(got["launches"]) != set(ref["launches"]):
        out.append(oracles.V("prefix_verdict", "launch_set", f"{where}: launches {sorted(got['launches'])} vs {sorted(ref['launches'])}"))
        return out
    for lk, want in ref["launches"].items():
        g = got["launches"][lk]
        if g["status"] != want["status"]:
            out.append(oracles.V("prefix_verdict", "launch_status", f"{where}: launch {lk[:12]} status={g['status']} documented {want['status']}"))
        if g["problems"] != want["problems"]:
            out.append(oracles.V("prefix_verdict", "launch_problems", f"{where}: launch {lk[:12]} problems={g['problems']} documented {want['problems']}"))
        if (g["summary"] or {}).get("runs_by_status") != want["runs_by_status"]:
            out.append(oracles.V("prefix_verdict", "launch_runs_by_status", f"{where}: {(g['summary'] or {}).get('runs_by_status')} vs counts of run verdicts {want['runs_by_status']}"))
        if (g["summary"] or {}).get("runs_total") != want["runs_total"]:
            out.append(oracles.V("prefix_verdict", "launch_runs_total", f"{where}: runs_total {(g['summary'] or {}).get('runs_total')} vs {want['runs_total']}"))
    return out


def _interleave(recs: list[dict], rng: random.Random) -> list[dict]:
    """k-way interleaving of per-file readers (each file keeps its own order)."""
    by_file: dict[str, list] = {}
    for r in recs:
        by_file.setdefault(r.get("_file", ""), []).append(r)
    qs = [list(v) for v in by_file.values()]
    out = []
    while any(qs):
        q = rng.choice([q for q in qs if q])
        out.append(q.pop(0))
    return out


def execute(sc: dict, seed: int) -> dict:
    INGEST_HOW.clear()
    stats: dict = {}
    viols: list[dict] = []
    w = SimWorld(seed, lane="c13")
    try:
        recs = produce(sc, w)
        if not recs:
            stats["discarded_base_mismatch"] = 1
            return {"violations": [], "stats": stats, "digests": [], "nontrivial": []}
        rng = random.Random(sc["order_seed"])
        td = _digest([{k: v for k, v in r.items() if k != "_file"} for r in recs])
        files = {r["_file"] for r in recs}
        if sc["kind"] == "launch":
            stats["probe.launch_trace"] = 1
            if sc.get("standalone_too"):
                stats["probe.launch_and_standalone_run_in_one_aggregator"] = 1
            if sc.get("retry"):
                stats["probe.two_attempts_sharing_a_launch_id"] = 1
        if sc.get("faults") and any(f for f in w.faults_fired):
            stats["probe.failing_run_trace"] = 1
            for f in w.faults_fired:
                stats[f"fault.{f['kind']}"] = stats.get(f"fault.{f['kind']}", 0) + 1
        if len(files) > 1:
            stats["probe.directory_mode_multi_file"] = 1
        nontrivial = []
        stats["crash_points"] = len(recs)
        lo = sc.get("only_prefix")
        # the verdict of one aggregator does not depend on what OTHER aggregator objects of the process have seen: in a seeded
        # half of the evaluations the complete trace is aggregated first (the normal history: a full report, then a fresh
        # aggregator for a truncated copy), and crash points are visited in a seeded order instead of shortest first
        order_n = list(range(1, len(recs) + 1))
        if sc["order_seed"] % 2:
            verdicts(list(recs))
            random.Random(sc["order_seed"]).shuffle(order_n)
            stats["probe.other_aggregator_saw_full_trace_first"] = 1
        for n in order_n:
            if lo is not None and n != lo:
                continue
            prefix = recs[:n]
            stats["fault.crash_after_line"] = stats.get("fault.crash_after_line", 0) + (1 if n < len(recs) else 0)
            base_v = verdicts(prefix)
            ref = reference(prefix)
            if any(not r["problems"] == [] and "missing_pipeline_end" in r["problems"] for r in ref["runs"].values()):
                stats["probe.prefix_without_pipeline_end"] = stats.get("probe.prefix_without_pipeline_end", 0) + 1
            viols.extend(compare_ref(base_v, ref, f"prefix {n}/{len(recs)} in emission order"))
            orders = []
            for _ in range(rng.randint(6, 12) if n > 1 else 1):
                p = list(prefix)
                rng.shuffle(p)
                orders.append(("permutation", p, None, False))
            if len(files) > 1:
                for _ in range(3):
                    orders.append(("interleave", _interleave(prefix, rng), None, False))
            orders.append(("midway_finalize", list(prefix), rng.randrange(n), False))
            orders.append(("finalize_twice", list(prefix), None, True))
            p = list(prefix)
            rng.shuffle(p)
            orders.append(("perm_midway_twice", p, rng.randrange(n), True))
            for name, order, mid, twice in orders:
                v = verdicts(order, midway=mid, twice=twice)
                stats["deliveries"] = stats.get("deliveries", 0) + 1
                if v != base_v:
                    d = _diff(base_v, v)
                    viols.append(oracles.V("order_independence", f"{name}:{d[0]}", f"prefix {n}: {name} verdict differs from emission order at {d[1]}"))
                    break
            if n >= 2:
                nontrivial.append(f"{td}/{n}")
        # arbitrary subsets: order-independence only
        if lo is None:
            for _ in range(8):
                sub = [r for r in recs if rng.random() < 0.6]
                if not sub:
                    continue
                if not any(r.get("record_type") == "pipeline_start" for r in sub) and any(r.get("record_type") == "ser" for r in sub):
                    stats["probe.subset_without_pipeline_start"] = stats.get("probe.subset_without_pipeline_start", 0) + 1
                v0 = verdicts(sub)
                for _ in range(4):
                    p = list(sub)
                    rng.shuffle(p)
                    v = verdicts(p, midway=rng.randrange(len(p)), twice=rng.random() < 0.5)
                    stats["deliveries"] = stats.get("deliveries", 0) + 1
                    if v != v0:
                        d = _diff(v0, v)
                        viols.append(oracles.V("order_independence", f"subset:{d[0]}", f"subset of {len(sub)} records: permuted delivery verdict differs at {d[1]}"))
                        break
        seen, uniq = set(), []
        for v in viols:
            kk = (v["clause"], v["key"])
            if kk not in seen:
                seen.add(kk)
                uniq.append(v)
        sample = {"kind": sc["kind"], "mode": sc["mode"], "nodes": sc["base"]["nodes"], "run_space": sc.get("run_space"),
                  "faults": sc.get("faults"), "record_types": [r.get("record_type") for r in recs]}
        for how, name in ((0, "ingest_one_by_one"), (1, "ingest_many_list"), (2, "ingest_many_lazy_stream"), (3, "ingest_many_two_lazy_batches")):
            if INGEST_HOW.get(how):
                stats[f"probe.{name}"] = INGEST_HOW[how]
        INGEST_HOW.clear()
        stats["sim_seconds"] = 0.0265 * w.clock.reads
        return {"violations": uniq, "stats": stats, "digests": [td], "nontrivial": nontrivial, "sample": sample,
                "digest": w.digest()}
    finally:
        w.close()


def _diff(a: dict, b: dict) -> tuple[str, str]:
    for space in ("runs", "launches"):
        for k in sorted(set(a[space]) | set(b[space])):
            x, y = a[space].get(k), b[space].get(k)
            if x != y:
                if x is None or y is None:
                    return (f"{space}_set", f"{space}/{k[:12]}: {x} vs {y}")
                for f in sorted(set(x) | set(y)):
                    if x.get(f) != y.get(f):
                        return (f"{space}.{f}", f"{space}/{k[:12]}.{f}: {x.get(f)} vs {y.get(f)}")
    return ("unknown", "")


def shrink_candidates(sc: dict):
    if sc.get("faults"):
        yield dict(sc, faults=[])
    if sc.get("retry"):
        yield dict(sc, retry=False)
    if sc["kind"] == "launch":
        yield dict(sc, kind="single")
    base = sc["base"]
    n = len(base["nodes"])
    for i in reversed(range(n)):
        if n <= 1:
            break
        b = copy.deepcopy(base)
        del b["nodes"][i]
        t = gen.recompute_truth(b)
        if t is None or any(x["missing"] or not x["type_ok"] for x in t):
            continue
        b["truth"] = t
        yield dict(sc, base=b, faults=[])
