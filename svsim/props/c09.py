"""C09 - a run-space launch equals its independent runs and is linked by stable IDs.

In-process `semantiva run` of generated (pipeline, run_space) pairs in the world: file/dir trace
output, launch-id option {explicit, idempotency key, generated}, attempt, a failing run at a seeded
index (or none). Every planned run is first executed STANDALONE in a freshly forked child (state
before the launch), then the launch runs; afterwards re-launches after a cosmetic rewrite, a
single-point plan mutation, and a rewrite / change of a referenced source file.
"""
from __future__ import annotations

import copy
import hashlib
import json
import os
import random
import re
import subprocess
import sys

from .. import gen, harness, oracles, runner
from ..world import SimWorld
from .c10 import normalize, _first_diff, _field_of

LEVEL = "exploration"
RULE = ("seeded (pipeline, run_space) pairs (1-3 blocks, both modes at block and combine level, optional csv/json source with "
        "rename) x {file, dir} x launch-id option x attempt in 1..3 x failing run index in {none, 0..n-1}; per pair: standalone "
        "runs in forked children, the launch, `inspect`, re-launch after cosmetic rewrite, after a plan mutation, after source "
        "file touch/change, and with same/different idempotency key. distinct_nontrivial = distinct (pair digest, options) "
        "launches with >= 2 planned runs."
        " Further seeded dimensions: multi-column sources with select, YAML in a sub-directory with decoy files in the cwd, empty plans, inspect+launch repeated in a fresh interpreter under another hash seed, --run-space-file, retry with the same idempotency key (attempt+1), run_space nested under pipeline:. Seventh round: failing runs ending with SimAbort/SystemExit, non-ASCII values and null cells for unconsumed keys, every run of a plan has the same keys.")
REAL_COMPONENTS = ["cli _run launch loop", "expand_run_space (plan source)", "RunSpaceIdentityService / LaunchManager / TraceEmitter",
                   "inspection builder (spec id)", "orchestrator pipeline_start FK fields", "JsonlTraceDriver (file / dir / runspace file)"]
STUB_COMPONENTS = ["leaf processors", "SvOrchestrator/RecordingExecutor selected from YAML", "SimClock/SimUUID", "file seam"]
ASSUMPTIONS = ["the plan is taken from expand_run_space (C08 is not claimed)", "trace content is compared after removing the C10 "
               "volatile fields and the run-space FK fields (launch id, attempt, index, context)"]
REQUIRED_PROBES = ["empty_plan", "yaml_not_in_cwd_with_source_and_decoy", "other_process_other_hashseed", "failing_run", "source_file", "idempotency_key", "explicit_launch_id", "attempt_gt_1", "multi_run_launch", "directory_mode", "run_space_nested_under_pipeline", "null_cell_in_later_row", "non_ascii_run_space_value", "failing_run_with_non_exception_abort", "source_changed_keeping_size_and_mtime", "context_flag_for_a_run_space_key", "node_mutating_a_context_list_in_place"]
CONFIG = {
    "quick": {"runs": 800, "budget_s": 240, "timeout_s": 180},
    "thorough": {"runs": 30000, "budget_s": 1600, "timeout_s": 180},
    "shrink_s": 60.0,
}
FK_FIELDS = ("run_space_launch_id", "run_space_attempt", "run_space_index", "run_space_context")


def _digest(obj) -> str:
    return hashlib.sha256(json.dumps(obj, sort_keys=True, default=repr).encode()).hexdigest()[:12]


def generate(rng: random.Random, tier: str, seed: int) -> dict:
    for _ in range(30):
        base = gen.gen_pipeline(rng, max_nodes=5)
        if base["init_data"] is None:
            break
    if base.get("truth") and base["truth"][-1]["out"] == "float" and rng.random() < 0.1:
        # a node that mutates, in place, a list it received from the context: what one run does to it must not reach the next
        base = dict(base, nodes=base["nodes"] + [{"processor": "SvAppendInPlace"}], context=dict(base["context"], acc=[]))
        in_place = True
    elif base.get("truth") and base["truth"][-1]["out"] == "float" and rng.random() < 0.12:
        # a node configured with a `model:` descriptor whose object keeps state between calls: every run - in a launch or
        # alone - must get an object of its own
        base = dict(base, nodes=base["nodes"] + [{"processor": "SvUseModel", "parameters": {"model": "model:SvOnlineMean:bias=1.5"}}])
        in_place = False
    else:
        in_place = False
    num_keys = [k for k, v in base["context"].items() if isinstance(v, float)]
    rsd = gen.gen_run_space(rng, sorted(num_keys)[:3], allow_source=True, exotic=True)
    opt = rng.choice(["generated", "generated", "explicit", "idem"])
    sc = {"base": {k: base[k] for k in ("nodes", "context", "init_data")}, "run_space": rsd["run_space"], "files": rsd["files"],
          "mode": rng.choice(["file", "dir"]), "detail": rng.choice(harness.DETAILS), "launch_opt": opt,
          "attempt": rng.choice([1, 1, 2, 3]), "fail_at": rng.choice([None, None, 0, 1, 2, 3]),
          "fail_node": rng.randrange(len(base["nodes"])), "mut_seed": rng.getrandbits(32)}
    # an explicit launch id is the caller's text, recorded as given (also when it is not a tidy identifier)
    sc["explicit_id"] = rng.choice(["launch-explicit-001", "launch-explicit-001", "nightly:2026-10-05 #3", "r\u00e9gression (retry) [b]=7"])
    sc["in_place_mutation"] = in_place
    sc["rs_file"] = rng.random() < 0.2
    sc["subdir"] = rng.random() < 0.35          # the YAML (and its source files) live in cfg/, the CLI runs from the parent directory
    if rng.random() < 0.06:
        # a legal run space that expands to ZERO runs
        sc["run_space"] = {"blocks": [{"mode": "combinatorial", "context": {"rs_empty": [], "rs_other": [1.0, 2.0]}}]}
        sc["files"] = {}
        sc["fail_at"] = None
    sc["nested_layout"] = rng.random() < 0.3
    sc["ctx_flag_for_plan_key"] = rng.random() < 0.25
    sc["fail_kind"] = rng.choice(["exception", "exception", "exception", "abort", "sysexit"])
    sc["hashseed"] = rng.choice([1, 2, 3, 5, 6, 7, 11]) if (rsd["files"] or rng.random() < 0.15) else None
    return sc


def _pfx(sc: dict) -> str:
    return "cfg/" if sc.get("subdir") else ""


def _plan(sc: dict, cfg_name: str):
    from semantiva.configurations import load_pipeline_from_yaml
    from semantiva.execution.run_space import expand_run_space
    cfg = load_pipeline_from_yaml(cfg_name)
    runs, meta = expand_run_space(cfg.run_space, cwd=cfg.base_dir)
    return runs


def _rs_keys(rs: dict) -> set:
    keys = set()
    for b in rs["blocks"]:
        keys.update((b.get("context") or {}).keys())
        src = b.get("source")
        if src:
            keys.update((src.get("rename") or {}).values())
    return keys


def _launch(sc: dict, w, name: str, run_space: dict, *, opt: str, idem: str = "k1", faults=None, extra=(), nested: bool = False) -> dict:
    base = sc["base"]
    pfx = _pfx(sc)
    harness.write_cli_config(base, f"{pfx}{name}.yaml", trace=harness.trace_cfg(sc["mode"], sc["detail"], name), run_space=run_space,
                             run_space_nested=nested)
    argv = ["run", f"{pfx}{name}.yaml", "--run-space-attempt", str(sc["attempt"])]
    if sc.get("rs_file") and name == "launch_rsfile":
        # same plan, but the run space comes from a separate file given on the command line
        import yaml
        harness.write_cli_config(base, f"{pfx}{name}.yaml", trace=harness.trace_cfg(sc["mode"], sc["detail"], name), run_space=None)
        with open(f"{pfx}{name}_rs.yaml", "w") as f:
            f.write(yaml.safe_dump({"run_space": run_space}, sort_keys=False))
        argv += ["--run-space-file", f"{pfx}{name}_rs.yaml"]
    if opt == "explicit":
        argv += ["--run-space-launch-id", sc.get("explicit_id") or "launch-explicit-001"]
    elif opt == "idem":
        argv += ["--run-space-idempotency-key", idem]
    plan = _plan(sc, f"{pfx}{name}.yaml") if not (sc.get("rs_file") and name == "launch_rsfile") else _plan(sc, f"{pfx}plan.yaml")
    plan_keys = set().union(*[set(r) for r in plan]) if plan else set()
    for k, v in base["context"].items():
        if k not in plan_keys:
            argv += ["--context", f"{k}={harness.cli_value(v)}"]
        elif sc.get("ctx_flag_for_plan_key") and isinstance(v, float):
            # the command line ALSO names a key the run space supplies: the planned value of each run wins
            argv += ["--context", f"{k}={harness.cli_value(v + 7000.0)}"]
    argv += list(extra)
    first = len(w.emissions)
    run0 = w.cur_run
    ri0 = len(w.run_inputs)
    ex0 = len(w.exec_log)
    f = []
    if faults is not None:
        f = [dict(x, run=run0 + 1 + x["run"]) for x in faults]
    w.set_faults(f)
    r = harness.run_cli(argv)
    recs, problems = harness.parse_lines(w.emissions[first:])
    return {"cli": r, "records": recs, "problems": problems, "plan": plan, "run_inputs": w.run_inputs[ri0:],
            "exec_log": w.exec_log[ex0:], "run0": run0 + 1, "argv": argv}


def _standalone(sc: dict, w, run_ctx: dict, fault: dict | None, tag: str) -> dict:
    """Executed inside a forked grandchild: one run given run i's context."""
    s = {"nodes": sc["base"]["nodes"], "context": run_ctx, "init_data": None,
         "faults": [dict(fault, run=w.cur_run + 1)] if fault else []}
    rr = harness.run_scenario(s, w, trace_mode="file", detail=sc["detail"], name=f"alone_{tag}")
    recs, _ = harness.parse_lines(rr["emissions"])
    oc = rr["outcome"]
    res = {"ok": oc["ok"], "data": oc.get("data"), "context": oc.get("context"), "exc_type": oc.get("exc_type"),
           "exc_msg": oc.get("exc_msg"), "records": _strip(recs)}
    return res


def _strip(recs: list[dict]) -> list[dict]:
    out = []
    for r in normalize(recs):
        for k in FK_FIELDS:
            r.pop(k, None)
        out.append(r)
    return out


def _fork_call(fn):
    """Run fn() in a forked copy of this process; return its JSON result."""
    r, wfd = os.pipe()
    pid = os.fork()
    if pid == 0:
        code = 0
        try:
            os.close(r)
            data = json.dumps(fn(), default=runner._json_default).encode()
            with os.fdopen(wfd, "wb") as f:
                f.write(data)
        except BaseException:  # noqa: BLE001
            import traceback
            try:
                os.write(2, traceback.format_exc().encode())
            except Exception:
                pass
            code = 19
        os._exit(code)
    os.close(wfd)
    chunks = []
    with os.fdopen(r, "rb") as f:
        chunks.append(f.read())
    _, status = os.waitpid(pid, 0)
    if status != 0:
        raise RuntimeError(f"forked standalone run failed with status {status}")
    return json.loads(b"".join(chunks))


def _inspect_spec_id(name: str, pfx: str = "") -> str | None:
    r = harness.run_cli(["inspect", f"{pfx}{name}.yaml"])
    m = re.search(r"^- Run-Space Config ID:\s*(\S+)", r["stdout"], re.M)
    return m.group(1) if m else None


def _cosmetic(rs: dict, rng: random.Random) -> dict:
    def perm(o):
        if isinstance(o, dict):
            ks = list(o)
            rng.shuffle(ks)
            return {k: perm(o[k]) for k in ks}
        if isinstance(o, list):
            return [perm(x) for x in o]
        return o
    return perm(copy.deepcopy(rs))


def _mutate_plan(rs: dict, rng: random.Random) -> dict | None:
    rs = copy.deepcopy(rs)
    blocks = [b for b in rs["blocks"] if b.get("context")]
    if not blocks:
        return None
    b = rng.choice(blocks)
    k = rng.choice(sorted(b["context"]))
    v0 = b["context"][k][0]
    b["context"][k][0] = (v0 + 1000.0) if isinstance(v0, float) else (f"{v0}-changed" if isinstance(v0, str) else 1000.0)
    return rs


def _write_files(sc: dict) -> None:
    """Source files next to the YAML; when the YAML lives in cfg/, same-named DECOYS with other content sit in the cwd."""
    pfx = _pfx(sc)
    if pfx:
        os.makedirs("cfg", exist_ok=True)
    for fn, text in sc["files"].items():
        with open(pfx + fn, "w") as f:
            f.write(text)
        if pfx:
            with open(fn, "w") as f:
                f.write(re.sub(r"(\d+\.\d+)", lambda m: str(float(m.group(1)) + 7000.0), text))


def _child_main() -> int:
    """Fresh interpreter (other PYTHONHASHSEED): `inspect` and one launch of the same configuration in the same directory."""
    harness.setup_process()
    req = json.loads(sys.stdin.read())
    sc, seed = req["sc"], req["seed"]
    sc = dict(sc, run_space=gen.decode_int_keys(sc["run_space"]))
    w = SimWorld(seed, lane="c09")
    try:
        _write_files(sc)
        L = _launch(sc, w, "launch", sc["run_space"], opt=sc["launch_opt"])
        st = next((r for r in L["records"] if r.get("record_type") == "run_space_start"), {})
        out = {"inspect_spec_id": _inspect_spec_id("launch", _pfx(sc)), "trace_spec_id": st.get("run_space_spec_id"),
               "inputs_id": st.get("run_space_inputs_id"), "launch_id": st.get("run_space_launch_id"), "sandbox": w.sandbox}
    finally:
        w.close()
    print("RESULT " + json.dumps(out))
    return 0


def _other_process(sc: dict, seed: int, hashseed: int) -> dict:
    env = dict(os.environ, PYTHONHASHSEED=str(hashseed))
    p = subprocess.run([sys.executable, "-m", "svsim.props.c09", "child"], input=json.dumps({"sc": sc, "seed": seed}), env=env,
                       capture_output=True, text=True)
    for line in p.stdout.splitlines():
        if line.startswith("RESULT "):
            return json.loads(line[7:])
    raise RuntimeError(f"fresh interpreter failed: {p.stdout[-1000:]} {p.stderr[-1500:]}")


def execute(sc: dict, seed: int) -> dict:
    stats: dict = {}
    viols: list[dict] = []
    other = None
    if sc.get("hashseed") is not None:
        # runs BEFORE this process creates its world so that both use the same sandbox directory (file URIs enter the ids)
        other = _other_process(sc, seed, sc["hashseed"])
        stats["probe.other_process_other_hashseed"] = 1
    if any(nd.get("processor") == "SvUseModel" for nd in sc["base"]["nodes"]):
        stats["probe.stateful_model_descriptor"] = 1
    if "__ik__" in json.dumps(sc["run_space"]):
        stats["probe.int_keyed_mapping_value"] = 1
    sc = dict(sc, run_space=gen.decode_int_keys(sc["run_space"]))      # after the fresh interpreter got the JSON form
    w = SimWorld(seed, lane="c09")
    try:
        if other is not None and other.get("sandbox") != w.sandbox:
            other = None   # directory collision: ids containing the path are not comparable
        _write_files(sc)
        rs = sc["run_space"]
        # plan (from the repo's own expansion) and standalone runs in forked children BEFORE the launch
        harness.write_cli_config(sc["base"], _pfx(sc) + "plan.yaml", run_space=rs)
        try:
            plan = _plan(sc, _pfx(sc) + "plan.yaml")
        except Exception as e:  # noqa: BLE001
            stats["discarded_base_mismatch"] = 1
            return {"violations": [], "stats": stats, "digests": [], "nontrivial": [], "note": f"plan failed: {e}"}
        n = len(plan)
        if n == 0:
            # a launch with nothing to do is still a launch: bracketed, truthful counts, exit 0, no run
            stats["probe.empty_plan"] = 1
            L = _launch(sc, w, "launch", rs, opt=sc["launch_opt"])
            types = [r.get("record_type") for r in L["records"]]
            where = f"empty plan launch exit={L['cli']['code']} types={types} stderr={L['cli']['stderr'][:120]!r}"
            if types.count("run_space_start") != 1 or types[:1] != ["run_space_start"]:
                viols.append(oracles.V("bracket", "run_space_start:empty_plan", where))
            if types.count("run_space_end") != 1 or types[-1:] != ["run_space_end"]:
                viols.append(oracles.V("bracket", "run_space_end:empty_plan", where))
            for r in L["records"]:
                if r.get("record_type") == "run_space_end" and ((r.get("summary") or {}).get("planned_runs", 0) != 0 or (r.get("summary") or {}).get("completed_runs", 0) != 0):
                    viols.append(oracles.V("counts", "empty_plan", where + f" summary={r.get('summary')}"))
            if "pipeline_start" in types or L["run_inputs"]:
                viols.append(oracles.V("plan_order", "run_executed_for_empty_plan", where))
            if L["cli"]["code"] != 0:
                viols.append(oracles.V("exit_code", "empty_plan", where))
            return {"violations": viols, "stats": stats, "digests": [_digest(rs)], "nontrivial": [], "digest": w.digest(),
                    "sample": {"run_space": rs, "record_types": types}}
        fail_at = sc["fail_at"] if (sc["fail_at"] is not None and sc["fail_at"] < n) else None
        fault = {"site": "executor_pre", "kind": sc.get("fail_kind", "exception"), "node": sc["fail_node"]}
        # rows are runs: every run of a plan supplies the same keys (a null cell is a value, not an absent key)
        all_keys = set().union(*[set(r) for r in plan])
        short = [i for i, r in enumerate(plan) if set(r) != all_keys]
        if short:
            viols.append(oracles.V("plan_order", "run_lacks_a_run_space_key", f"plan of {n} runs over keys {sorted(all_keys)}: run(s) {short} lack "
                                   f"{[sorted(all_keys - set(plan[i])) for i in short][:3]}"))
        if any(v is None for r in plan for v in r.values()):
            stats["probe.null_cell_in_later_row"] = 1
        if any(isinstance(v, str) and not v.isascii() for r in plan for v in r.values()):
            stats["probe.non_ascii_run_space_value"] = 1
        ctx0 = sc["base"]["context"]
        alone = []
        upto = n if fail_at is None else fail_at + 1
        for i in range(upto):
            run_ctx = dict(ctx0)
            run_ctx.update(plan[i])
            alone.append(_fork_call(lambda i=i, run_ctx=run_ctx: _standalone(sc, w, run_ctx, fault if i == fail_at else None, str(i))))
        if any((not a["ok"]) != (i == fail_at) for i, a in enumerate(alone)):
            stats["discarded_base_mismatch"] = 1
            return {"violations": [], "stats": stats, "digests": [], "nontrivial": []}
        # ---- the launch
        L = _launch(sc, w, "launch", rs, opt=sc["launch_opt"], faults=[dict(fault, run=fail_at)] if fail_at is not None else None)
        recs = L["records"]
        code = L["cli"]["code"]
        if isinstance(code, str) and fail_at is not None and L["cli"].get("exc") is not None and L["cli"]["exc"] is w.last_injected:
            code = 1        # the run's own BaseException-class abort left cli.main: the process dies of it, status 1
        if fail_at is not None and sc.get("fail_kind", "exception") != "exception":
            stats["probe.failing_run_with_non_exception_abort"] = 1
        where = f"launch opt={sc['launch_opt']} attempt={sc['attempt']} mode={sc['mode']} plan={n} fail_at={fail_at} exit={code} stderr={L['cli']['stderr'][:120]!r}"
        if isinstance(code, str):
            viols.append(oracles.V("cli_crash", "launch", where))
        types = [r.get("record_type") for r in recs]
        starts = [r for r in recs if r.get("record_type") == "pipeline_start"]
        rs_start = [r for r in recs if r.get("record_type") == "run_space_start"]
        rs_end = [r for r in recs if r.get("record_type") == "run_space_end"]
        fk = "fail" if fail_at is not None else "ok"
        # "The launch is bracketed by one run_space_start and one run_space_end (also when a run fails, with truthful counts)"
        if len(rs_start) != 1 or types[:1] != ["run_space_start"]:
            viols.append(oracles.V("bracket", f"run_space_start:{fk}", f"{where}; record types {types[:4]}...{types[-3:]}"))
        if len(rs_end) != 1 or types[-1:] != ["run_space_end"]:
            viols.append(oracles.V("bracket", f"run_space_end:{fk}", f"{where}; record types {types[:4]}...{types[-3:]}"))
        completed = n if fail_at is None else fail_at
        if rs_start:
            s0 = rs_start[0]
            if s0.get("run_space_planned_run_count") != n or s0.get("run_space_total_runs") != n:
                viols.append(oracles.V("counts", "planned_in_start", f"{where}; start says planned={s0.get('run_space_planned_run_count')} total={s0.get('run_space_total_runs')}"))
        if rs_end:
            sm = rs_end[0].get("summary") or {}
            if sm.get("planned_runs") != n:
                viols.append(oracles.V("counts", f"planned_in_end:{fk}", f"{where}; end summary {sm}"))
            if sm.get("completed_runs") != completed:
                viols.append(oracles.V("counts", f"completed_in_end:{fk}", f"{where}; end summary {sm}, actually completed {completed}"))
        # "performs the planned runs in plan order"
        seen_ctx = [ri["context"] for ri in L["run_inputs"]]
        want_ctx = []
        for i in range(upto):
            c = dict(ctx0)
            c.update(plan[i])
            want_ctx.append(c)
        if [_canon(c) for c in seen_ctx] != [_canon(_logged(c)) for c in want_ctx]:
            viols.append(oracles.V("plan_order", f"executed_contexts:{fk}", f"{where}; executed {seen_ctx} planned prefix {want_ctx}"))
        # "every pipeline_start carries the launch id, attempt, its 0-based index and its context"
        launch_id = rs_start[0].get("run_space_launch_id") if rs_start else None
        if sc["launch_opt"] == "explicit" and rs_start:
            want_id = sc.get("explicit_id") or "launch-explicit-001"
            for r in rs_start + rs_end:
                if r.get("run_space_launch_id") != want_id:
                    viols.append(oracles.V("launch_id", "explicit_id_not_recorded_as_given", f"{where}; --run-space-launch-id {want_id!r}, {r.get('record_type')} has {r.get('run_space_launch_id')!r}"))
        for i, st in enumerate(starts):
            exp_ctx = want_ctx[i] if i < len(want_ctx) else None
            if st.get("run_space_launch_id") != launch_id or launch_id is None:
                viols.append(oracles.V("fk", "launch_id", f"{where}; pipeline_start {i} launch id {st.get('run_space_launch_id')} vs {launch_id}"))
            if st.get("run_space_attempt") != sc["attempt"]:
                viols.append(oracles.V("fk", "attempt", f"{where}; pipeline_start {i} attempt {st.get('run_space_attempt')}"))
            if st.get("run_space_index") != i:
                viols.append(oracles.V("fk", "index_not_0_based_position", f"{where}; pipeline_start {i} run_space_index={st.get('run_space_index')}"))
            if exp_ctx is not None and _canon(st.get("run_space_context")) != _canon(_as_json(exp_ctx)):
                viols.append(oracles.V("fk", "context", f"{where}; pipeline_start {i} run_space_context={st.get('run_space_context')} planned {exp_ctx}"))
        if rs_start and rs_start[0].get("run_space_attempt") != sc["attempt"]:
            viols.append(oracles.V("fk", "attempt_in_start", f"{where}; {rs_start[0].get('run_space_attempt')}"))
        if sc["launch_opt"] == "explicit" and launch_id != (sc.get("explicit_id") or "launch-explicit-001"):
            viols.append(oracles.V("launch_id", "explicit_not_used", f"{where}; launch id {launch_id}"))
        # exit code
        if (code == 0) != (fail_at is None):
            viols.append(oracles.V("exit_code", f"{fk}", where))
        # "run i produces the same result and the same trace content as a standalone run given run i's context"
        per_run: list[list[dict]] = []
        cur: list[dict] = []
        for r in recs:
            if r.get("record_type") == "pipeline_start":
                cur = [r]
                per_run.append(cur)
            elif r.get("record_type") in ("ser", "pipeline_end") and per_run:
                cur.append(r)
        by_run: dict[int, list] = {}
        for e in L["exec_log"]:
            by_run.setdefault(e["run"] - L["run0"], []).append(e)
        for i in range(min(len(per_run), len(alone))):
            a = alone[i]
            mine = _strip(per_run[i])
            d = _first_diff(a["records"], mine)
            if d:
                viols.append(oracles.V("independent", f"trace_content:{_field_of(d)}", f"{where}; run {i} vs standalone: {d}"))
            ex = by_run.get(i, [])
            if a["ok"] and ex and ex[-1].get("status") == "returned":
                got = {"data": ex[-1].get("out_data"), "context": ex[-1].get("post_ctx")}
                if json.dumps(got, sort_keys=True, default=repr) != json.dumps({"data": a["data"], "context": a["context"]}, sort_keys=True, default=repr):
                    viols.append(oracles.V("independent", "result", f"{where}; run {i} result {got} vs standalone data={a['data']} ctx={a['context']}"))
        # ---- identity: inspect vs trace, cosmetic rewrite, mutation, idempotency, inputs id
        spec_id = rs_start[0].get("run_space_spec_id") if rs_start else None
        inputs_id = rs_start[0].get("run_space_inputs_id") if rs_start else None
        insp = _inspect_spec_id("launch", _pfx(sc))
        if spec_id is not None and insp != spec_id:
            viols.append(oracles.V("spec_id", "inspect_ne_trace", f"{where}; inspect prints {insp}, run_space_start has {spec_id}"))
        if other is not None:
            # `inspect` and `run` are normally separate processes (each with its own hash seed)
            if other["inspect_spec_id"] != spec_id or other["trace_spec_id"] != spec_id:
                viols.append(oracles.V("spec_id", "differs_across_processes", f"{where}; this process {spec_id}; other process (PYTHONHASHSEED={sc['hashseed']}) "
                                       f"inspect={other['inspect_spec_id']} trace={other['trace_spec_id']}"))
            if other["inputs_id"] != inputs_id:
                viols.append(oracles.V("inputs_id", "differs_across_processes", f"{where}; {inputs_id} vs {other['inputs_id']}"))
            if sc["launch_opt"] == "idem" and other["launch_id"] != launch_id:
                viols.append(oracles.V("launch_id", "idempotency_key_not_reproducible_across_processes", f"{where}; {launch_id} vs {other['launch_id']}"))
        if sc.get("rs_file"):
            # "--run-space-file" is just another way to write the same plan: same spec id, same runs
            Lf = _launch(sc, w, "launch_rsfile", rs, opt="generated")
            sf = next((r for r in Lf["records"] if r.get("record_type") == "run_space_start"), {})
            stats["probe.run_space_file_option"] = 1
            if spec_id is not None and sf.get("run_space_spec_id") != spec_id:
                viols.append(oracles.V("spec_id", "differs_with_run_space_file_option", f"{where}; {spec_id} vs {sf.get('run_space_spec_id')}"))
            got = [_canon(ri["context"]) for ri in Lf["run_inputs"]]
            if got != [_canon(_logged(c)) for c in (want_ctx if fail_at is None else [dict(ctx0, **plan[i]) for i in range(n)])]:
                viols.append(oracles.V("plan_order", "run_space_file_option", f"{where}; executed contexts differ when the run space is given by file"))
        mrng = random.Random(sc["mut_seed"])
        L2 = _launch(sc, w, "cosmetic", _cosmetic(rs, mrng), opt=sc["launch_opt"])
        s2 = next((r for r in L2["records"] if r.get("record_type") == "run_space_start"), {})
        if spec_id is not None and s2.get("run_space_spec_id") != spec_id:
            viols.append(oracles.V("spec_id", "changes_under_cosmetic_rewrite", f"{where}; {spec_id} vs {s2.get('run_space_spec_id')}"))
        # ... and the same spec id means the same plan: the rewritten file performs the same runs in the same order
        got2 = [_canon(ri["context"]) for ri in L2["run_inputs"]]
        if got2 != [_canon(_logged(dict(ctx0, **plan[i]))) for i in range(n)]:
            viols.append(oracles.V("plan_order", "changes_under_cosmetic_rewrite", f"{where}; mapping keys of the run_space block permuted: executed "
                                   f"{[ri['context'] for ri in L2['run_inputs']][:4]} vs planned {[dict(ctx0, **plan[i]) for i in range(min(n, 4))]}"))
        if sc["launch_opt"] == "idem":
            stats["probe.idempotency_key"] = 1
            if s2.get("run_space_launch_id") != launch_id:
                viols.append(oracles.V("launch_id", "idempotency_key_not_reproducible", f"{where}; {launch_id} vs {s2.get('run_space_launch_id')}"))
            # a retry (next attempt number) of the same plan with the same key belongs to the same launch
            sc_retry = dict(sc, attempt=sc["attempt"] + 1)
            Lr = _launch(sc_retry, w, "idem_retry", rs, opt="idem")
            sr = next((r for r in Lr["records"] if r.get("record_type") == "run_space_start"), {})
            if sr.get("run_space_launch_id") != launch_id:
                viols.append(oracles.V("launch_id", "idempotency_key_depends_on_attempt", f"{where}; attempt {sc['attempt']} -> {launch_id}, attempt {sc['attempt'] + 1} -> {sr.get('run_space_launch_id')}"))
            if sr.get("run_space_attempt") != sc["attempt"] + 1:
                viols.append(oracles.V("fk", "attempt_in_start_of_retry", f"{where}; {sr.get('run_space_attempt')}"))
            L3 = _launch(sc, w, "idem2", rs, opt="idem", idem="k2")
            s3 = next((r for r in L3["records"] if r.get("record_type") == "run_space_start"), {})
            if s3.get("run_space_launch_id") == launch_id:
                viols.append(oracles.V("launch_id", "different_key_same_launch_id", f"{where}; {launch_id}"))
        if sc.get("nested_layout"):
            # the run space written under `pipeline:` (next to `nodes`) is the same launch written differently
            stats["probe.run_space_nested_under_pipeline"] = 1
            Ln = _launch(sc, w, "nested", rs, opt=sc["launch_opt"], nested=True, faults=[dict(fault, run=fail_at)] if fail_at is not None else None)
            tn = [r.get("record_type") for r in Ln["records"]]
            wn = f"{where}; nested layout exit={Ln['cli']['code']} types={tn[:3]}..{tn[-2:]}"
            if tn.count("run_space_start") != 1 or tn[:1] != ["run_space_start"]:
                viols.append(oracles.V("bracket", "run_space_start:nested_layout", wn))
            if tn.count("run_space_end") != 1 or tn[-1:] != ["run_space_end"]:
                viols.append(oracles.V("bracket", "run_space_end:nested_layout", wn))
            sn = next((r for r in Ln["records"] if r.get("record_type") == "run_space_start"), {})
            if spec_id is not None and sn.get("run_space_spec_id") != spec_id:
                viols.append(oracles.V("spec_id", "differs_for_nested_layout", f"{wn}; {spec_id} vs {sn.get('run_space_spec_id')}"))
            ps_n = [r for r in Ln["records"] if r.get("record_type") == "pipeline_start"]
            if [p.get("run_space_index") for p in ps_n] != list(range(len(ps_n))) or any(p.get("run_space_launch_id") != sn.get("run_space_launch_id") or
                                                                                         p.get("run_space_attempt") != sc["attempt"] for p in ps_n):
                viols.append(oracles.V("fk", "nested_layout", f"{wn}; pipeline_start fks {[(p.get('run_space_launch_id'), p.get('run_space_attempt'), p.get('run_space_index')) for p in ps_n][:3]}"))
            if [_canon(ri["context"]) for ri in Ln["run_inputs"]] != [_canon(ri["context"]) for ri in L["run_inputs"]]:
                viols.append(oracles.V("plan_order", "nested_layout", f"{wn}; executed contexts differ from the top-level layout"))
            if insp is not None and _inspect_spec_id("nested", _pfx(sc)) != insp:
                viols.append(oracles.V("spec_id", "inspect_differs_for_nested_layout", wn))
        mut = _mutate_plan(rs, mrng)
        if mut is not None:
            L4 = _launch(sc, w, "mutated", mut, opt="generated")
            s4 = next((r for r in L4["records"] if r.get("record_type") == "run_space_start"), {})
            if spec_id is not None and s4.get("run_space_spec_id") == spec_id:
                viols.append(oracles.V("spec_id", "same_for_different_plan", f"{where}; mutated plan still {spec_id}"))
        if sc["files"]:
            stats["probe.source_file"] = 1
            fn = sorted(sc["files"])[0]
            with open(_pfx(sc) + fn, "w") as f:       # rewrite identical content (mtime changes, content does not)
                f.write(sc["files"][fn])
            L5 = _launch(sc, w, "touched", rs, opt="generated")
            s5 = next((r for r in L5["records"] if r.get("record_type") == "run_space_start"), {})
            if s5.get("run_space_inputs_id") != inputs_id:
                viols.append(oracles.V("inputs_id", "changes_without_content_change", f"{where}; {inputs_id} vs {s5.get('run_space_inputs_id')}"))
            text = sc["files"][fn]
            changed = re.sub(r"(\d+\.\d+)", lambda m: str(float(m.group(1)) + 500.0), text, count=1)
            keep_stat = sc["mut_seed"] % 2 == 0
            if keep_stat:
                # what `rsync -t`, `cp -p` or a cache restore produce: other content, SAME size and SAME modification time
                changed = re.sub(r"(\d)(\d*\.\d+)", lambda m: str((int(m.group(1)) % 9) + 1) + m.group(2), text, count=1)
                st_old = os.stat(_pfx(sc) + fn)
            with open(_pfx(sc) + fn, "w") as f:
                f.write(changed)
            if keep_stat and len(changed) == len(text):
                os.utime(_pfx(sc) + fn, ns=(st_old.st_atime_ns, st_old.st_mtime_ns))
                stats["probe.source_changed_keeping_size_and_mtime"] = 1
            L6 = _launch(sc, w, "changed", rs, opt="generated")
            s6 = next((r for r in L6["records"] if r.get("record_type") == "run_space_start"), {})
            if changed != text and s6.get("run_space_inputs_id") == inputs_id:
                viols.append(oracles.V("inputs_id", "unchanged_after_content_change", f"{where}; {inputs_id}"))
            if s6.get("run_space_spec_id") != spec_id:
                viols.append(oracles.V("spec_id", "changes_with_file_content", f"{where}; {spec_id} vs {s6.get('run_space_spec_id')}"))
        if sc.get("ctx_flag_for_plan_key") and any(k in all_keys for k in ctx0):
            stats["probe.context_flag_for_a_run_space_key"] = 1
        if sc.get("in_place_mutation"):
            stats["probe.node_mutating_a_context_list_in_place"] = 1
        if fail_at is not None:
            stats["probe.failing_run"] = 1
            stats["fault.exception"] = 1
        if sc["launch_opt"] == "explicit":
            stats["probe.explicit_launch_id"] = 1
        if sc["attempt"] > 1:
            stats["probe.attempt_gt_1"] = 1
        if n >= 2:
            stats["probe.multi_run_launch"] = 1
        if sc["mode"] == "dir":
            stats["probe.directory_mode"] = 1
        if sc.get("subdir"):
            stats["probe.yaml_not_in_cwd"] = 1
            if sc["files"]:
                stats["probe.yaml_not_in_cwd_with_source_and_decoy"] = 1
        stats["launches"] = 2 + (1 if mut else 0) + (2 if sc["files"] else 0) + (1 if sc["launch_opt"] == "idem" else 0)
        stats["planned_runs"] = n
        stats["sim_seconds"] = 0.0265 * w.clock.reads
        seen, uniq = set(), []
        for v in viols:
            kk = (v["clause"], v["key"])
            if kk not in seen:
                seen.add(kk)
                uniq.append(v)
        pd = _digest({"b": sc["base"], "r": rs, "f": sc["files"]})
        od = _digest([sc["mode"], sc["launch_opt"], sc["attempt"], fail_at])
        sample = {"nodes": sc["base"]["nodes"], "context": ctx0, "run_space": rs, "files": sc["files"], "plan": plan[:4],
                  "launch_opt": sc["launch_opt"], "attempt": sc["attempt"], "fail_at": fail_at, "mode": sc["mode"]}
        return {"violations": uniq, "stats": stats, "digests": [f"{pd}/{od}"], "nontrivial": [f"{pd}/{od}"] if n >= 2 else [],
                "sample": sample, "digest": w.digest()}
    finally:
        w.close()


def _logged(ctx: dict) -> dict:
    """A planned context in the form the world's run-input log stores it (non-string mapping keys are tagged with their type)."""
    from ..world import _jsonable
    return {k: _jsonable(v) for k, v in ctx.items()}


def _as_json(ctx: dict):
    """A planned context as a JSON trace record can carry it (JSON turns integer mapping keys into strings)."""
    return json.loads(json.dumps(ctx))


def _canon(c):
    return json.dumps(c, sort_keys=True, default=repr)


def shrink_candidates(sc: dict):
    if sc.get("hashseed") is not None:
        yield dict(sc, hashseed=None)
    if sc["fail_at"] is not None:
        yield dict(sc, fail_at=None)
    if sc["launch_opt"] != "generated":
        yield dict(sc, launch_opt="generated")
    if sc["attempt"] != 1:
        yield dict(sc, attempt=1)
    if sc["mode"] != "file":
        yield dict(sc, mode="file")
    rs = sc["run_space"]
    if len(rs["blocks"]) > 1:
        for i in range(len(rs["blocks"])):
            r2 = copy.deepcopy(rs)
            del r2["blocks"][i]
            yield dict(sc, run_space=r2)
    base = sc["base"]
    n = len(base["nodes"])
    for i in reversed(range(n)):
        if n <= 1:
            break
        b = copy.deepcopy(base)
        del b["nodes"][i]
        t = gen.recompute_truth(b)
        if t is None or any(x["missing"] or not x["type_ok"] for x in t):
            continue
        yield dict(sc, base=b, fail_node=min(sc["fail_node"], n - 2))


if __name__ == "__main__":
    if len(sys.argv) > 1 and sys.argv[1] == "child":
        sys.exit(_child_main())
