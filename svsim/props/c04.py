"""C04 - configuration identities are pure functions of configuration meaning.

What is simulated is the environment and the history, not the input: each generated
configuration is evaluated in several worlds (clock base/steps, TZ, cwd, uuid stream, prior
in-process history, cosmetic rewrite of its YAML text) plus one fresh interpreter under another
PYTHONHASHSEED, along three paths (inspection payload + `semantiva inspect` stdout, Pipeline
construction, pipeline_start of a traced run). All identities must coincide.
"""
from __future__ import annotations

import copy
import hashlib
import json
import os
import random
import re
import subprocess
import sys

from .. import gen, harness, oracles
from ..world import SimWorld

EVAL_COUNTER = "worlds"
EVAL_UNIT = "one (configuration, world) identity record along the three paths"
LEVEL = "exploration"
RULE = ("seeded configurations (pipelines with nested parameter maps, sweeps with expressions, optional run_space) x 3-5 "
        "in-process worlds {clock, TZ, cwd, uuid stream, prior history of 0-6 operations on it and on other configs, cosmetic "
        "YAML rewrite: key order at every depth, flow/block style, quoting, float spellings, anchors, +/* operand order} x one "
        "fresh interpreter under a different PYTHONHASHSEED x three paths. distinct_nontrivial = distinct (config digest, world "
        "digest) pairs in which all three paths produced identities."
        " Further seeded dimensions: every bool spelling, sweeps without expressions, integral value lists with type-variant twins in the history, library loader on a just-rewritten path, trace detail sampled from all flag subsets, the traced Pipeline object run twice, pristine YAML loader as the judge of meaning. Seventh round: a long-lived orchestrator serving 150-300 short-lived Pipelines (A / sibling alternating), container-valued parameters with aliased lists/maps, refused rewrites are violations.")
REAL_COMPONENTS = ["graph_builder (canonical spec, node uuids, pipeline id)", "metadata.semantic_id", "inspection builder / reporter",
                   "cli inspect / cli run", "orchestrator (pipeline_start meta)", "node_preprocess / sweep factory", "YAML loader"]
STUB_COMPONENTS = ["leaf processors", "RecordingExecutor", "SimClock/SimUUID", "PyYAML dumper variants (harness-side rewriter)"]
ASSUMPTIONS = ["a rewrite is cosmetic iff yaml.safe_load of both texts is type-strictly equal (dict order ignored; sweep "
               "expressions compared up to +/* operand order)", "equality across worlds only; hashes are not re-implemented"]
REQUIRED_PROBES = ["reused_pipeline_second_traced_run_with_sweep", "history_contains_failing_run", "fresh_interpreter_other_hashseed",
                   "world_pair_differs_in_cwd", "rewrite_flow_style", "rewrite_float_spelling", "rewrite_expression_commuted", "with_run_space", "history_contains_type_variant_twin", "rewrite_bool_spelling", "long_lived_orchestrator_short_lived_pipelines", "rewrite_aliased_list", "history_contains_extended_inspect"]
CONFIG = {
    "quick": {"runs": 640, "budget_s": 240, "timeout_s": 240},
    "thorough": {"runs": 20000, "budget_s": 1700, "timeout_s": 240},
    "shrink_s": 60.0,
}
HASHSEED_INVARIANT_LOG = True


def _digest(obj) -> str:
    return hashlib.sha256(json.dumps(obj, sort_keys=True, default=repr).encode()).hexdigest()[:12]


def generate(rng: random.Random, tier: str, seed: int) -> dict:
    a = gen.gen_pipeline(rng, max_nodes=6)
    b = gen.gen_pipeline(rng, max_nodes=4)
    if a["truth"][-1]["out"] == "float" and rng.random() < 0.3:
        # container-valued node parameters; equal containers inside ONE node's parameters (the rewriter may write the
        # second one as an alias of the first)
        lst = [float(rng.randint(1, 9)) for _ in range(rng.randint(1, 3))]
        tab = {"p": float(rng.randint(1, 5)), "q": 0.5}
        pp = {"coeffs": lst, "weights": (list(lst) if rng.random() < 0.7 else [1.0]), "table": tab}
        if rng.random() < 0.6:
            pp["table2"] = dict(tab)
        node = {"processor": "SvPoly", "parameters": pp}
        if rng.random() < 0.4:
            # the mapping-valued parameter is swept over explicit values that are themselves mappings
            pp.pop("table", None)
            node["derive"] = {"parameter_sweep": {"parameters": {"table": "tv"}, "collection": "FloatDataCollection", "mode": "combinatorial",
                                                  "variables": {"tv": {"values": [{"p": float(rng.randint(1, 5)), "q": 0.5, "r": 2.0},
                                                                                 {"p": 7.0, "q": float(rng.randint(1, 5)), "r": 0.25}]}}}}
        a["nodes"] = a["nodes"] + [node]
    if rng.random() < 0.25:
        # a `parameters:` key that is present but empty (YAML null) on a node that takes all its parameters from elsewhere
        cand = [n for n in a["nodes"] if "parameters" not in n and "derive" not in n]
        if cand:
            rng.choice(cand)["parameters"] = None
    sc = {"A": {k: a[k] for k in ("nodes", "context", "init_data")}, "B": {k: b[k] for k in ("nodes", "context", "init_data")},
          "worlds": [], "hashseed": rng.choice([1, 2, 3, 4, 5, 6, 7]), "child_world": rng.getrandbits(32)}
    if rng.random() < 0.5:
        sc["run_space"] = gen.gen_run_space(rng, sorted(a["context"])[:2], allow_source=False)["run_space"]
    for _ in range(rng.randint(3, 5)):
        hist = []
        for _ in range(rng.randint(0, 6)):
            hist.append(rng.choice(["build_B", "run_B", "run_B_traced", "inspect_B", "run_A_traced", "run_A_traced_reuse",
                                    "run_A_failing", "build_A", "inspect_A", "run_A", "inspect_twin", "run_twin_traced", "inspect_A_extended_cli"]))
        sc["worlds"].append({"seed": rng.getrandbits(32), "tz": rng.choice(harness.TZS), "cwd": rng.choice(["", "d1", "d1/d2", "x y"]),
                             "history": hist, "rewrite": rng.getrandbits(32)})
    if any("derive" in n for n in a["nodes"]):
        # configurations with sweeps: the extended report (which renders sweep details) is part of many histories
        for wd in sc["worlds"]:
            if rng.random() < 0.3:
                wd["history"].insert(rng.randrange(len(wd["history"]) + 1), "inspect_A_extended_cli")
    # one world in ~10 % of the configurations with a sweep: a long-lived orchestrator object serving many short-lived Pipelines
    if any("derive" in n for n in a["nodes"]) and rng.random() < 0.25:
        sc["worlds"][-1]["churn"] = rng.choice([150, 300])
    return sc


def _sibling(a: dict) -> dict | None:
    """A with its first sweep expression changed: same shape, different configuration meaning."""
    v = copy.deepcopy(a)
    for n in v["nodes"]:
        sw = (n.get("derive") or {}).get("parameter_sweep")
        if sw and sw.get("parameters"):
            k = sorted(sw["parameters"])[0]
            sw["parameters"][k] = f"({sw['parameters'][k]}) + 0.25"
            return v
    return None


def _churn(sc: dict, n: int, w, stats: dict) -> list[dict]:
    """One orchestrator object, n short-lived traced Pipelines alternating between A and a sibling configuration (dropped
    after each run). Every pipeline_start must carry the identities of ITS configuration."""
    import gc
    from semantiva import Pipeline
    from semantiva.inspection import build_inspection_payload
    from ..executor import RecordingExecutor, SvOrchestrator, SvTransport
    A = dict(sc["A"], faults=[])
    S = _sibling(sc["A"])
    S = dict(S, faults=[]) if S is not None else dict(sc["B"], faults=[])
    want = {}
    for tag, cfg in (("A", A), ("S", S)):
        pl = build_inspection_payload({"pipeline": {"nodes": copy.deepcopy(cfg["nodes"])}})
        want[tag] = {"semantic_id": pl["identity"]["semantic_id"], "config_id": pl["identity"]["config_id"],
                     "node_semantic_ids": {x["uuid"]: x["node_semantic_id"] for x in pl["pipeline_spec_canonical"]["nodes"]}}
    orch = SvOrchestrator(RecordingExecutor())
    out = []
    for k in range(n):
        tag = "A" if k % 2 == 0 else "S"
        cfg = A if tag == "A" else S
        p = Pipeline(copy.deepcopy(cfg["nodes"]), logger=harness.quiet_logger(), orchestrator=orch, transport=SvTransport())
        rr = harness.run_scenario(cfg, w, trace_mode="file", detail="hash", pipeline=p, name=f"churn{k}")
        recs, _ = harness.parse_lines(rr["emissions"])
        st = next((x for x in recs if x.get("record_type") == "pipeline_start"), None)
        ok = rr["outcome"]["ok"]
        del p, rr
        if k % 7 == 0:
            gc.collect()
        if st is None or not ok:
            break
        meta = st.get("meta") or {}
        got = {"semantic_id": meta.get("semantic_id"), "config_id": meta.get("config_id"), "node_semantic_ids": meta.get("node_semantic_ids")}
        if got != want[tag]:
            d = _first_diff(want[tag], got)
            out.append(oracles.V("paths", f"shared_orchestrator_pipeline_start_vs_inspect:{_field(d)}",
                                 f"one orchestrator, short-lived Pipelines alternating A / sibling: run {k} ({tag}): {d}"))
            break
    stats["probe.long_lived_orchestrator_short_lived_pipelines"] = 1
    stats["churn_runs"] = stats.get("churn_runs", 0) + n
    return out


# ---------------------------------------------------------------- cosmetic rewrites
def _commute(expr: str, rng: random.Random) -> str:
    """Swap the operands of + and * nodes at every depth (seeded), e.g. a*d + b*c -> c*b + d*a."""
    import ast
    try:
        tree = ast.parse(expr, mode="eval")
    except SyntaxError:
        return expr

    class Swap(ast.NodeTransformer):
        def visit_BinOp(self, node):
            self.generic_visit(node)
            if isinstance(node.op, (ast.Add, ast.Mult)) and rng.random() < 0.6:
                node.left, node.right = node.right, node.left
            return node

    out = ast.unparse(Swap().visit(tree))
    return out


def _permute(obj, rng: random.Random, stats: dict, path=()):
    if isinstance(obj, dict):
        keys = list(obj)
        rng.shuffle(keys)
        out = {}
        for k in keys:
            v = obj[k]
            if path and path[-1] == "parameter_sweep" and k == "parameters" and isinstance(v, dict):
                nv = {}
                ks = list(v)
                rng.shuffle(ks)
                for p in ks:
                    e2 = _commute(v[p], rng) if isinstance(v[p], str) else v[p]
                    if e2 != v[p]:
                        stats["probe.rewrite_expression_commuted"] = stats.get("probe.rewrite_expression_commuted", 0) + 1
                    nv[p] = e2
                out[k] = nv
            else:
                out[k] = _permute(v, rng, stats, path + (k,))
        return out
    if isinstance(obj, list):
        return [_permute(x, rng, stats, path) for x in obj]
    return obj


def rewrite_yaml(cfg: dict, rseed: int, stats: dict) -> tuple[str, dict]:
    """Return (yaml text, structure it must load to)."""
    import yaml
    rng = random.Random(rseed)
    variant = _permute(copy.deepcopy(cfg), rng, stats)
    style = rng.choice(["block", "flow", "mixed", "quoted"])
    spell = rng.random() < 0.6

    class D(yaml.SafeDumper):
        pass

    def rep_float(dumper, value):
        if value != value or value in (float("inf"), float("-inf")):
            return yaml.SafeDumper.represent_float(dumper, value)
        text = repr(value)
        if spell and "e" not in text and "." in text:
            c = rng.randrange(3)
            if c == 0:
                text = text + "0"
            elif c == 1:
                m, e = f"{value:.17e}".split("e")
                m = m.rstrip("0")
                if m.endswith("."):
                    m += "0"
                cand = f"{m}e{int(e):+d}"
                text = cand if float(cand) == value else text
            stats["probe.rewrite_float_spelling"] = stats.get("probe.rewrite_float_spelling", 0) + 1
        return dumper.represent_scalar("tag:yaml.org,2002:float", text)

    def rep_bool(dumper, value):
        words = (["true", "True", "TRUE", "yes", "Yes", "on", "On"] if value else ["false", "False", "FALSE", "no", "No", "off", "Off"])
        w = words[rng.randrange(len(words))] if spell else ("true" if value else "false")
        if w not in ("true", "false"):
            stats["probe.rewrite_bool_spelling"] = stats.get("probe.rewrite_bool_spelling", 0) + 1
        return dumper.represent_scalar("tag:yaml.org,2002:bool", w)

    D.add_representer(float, rep_float)
    D.add_representer(bool, rep_bool)
    # share identical sub-maps so the emitter produces anchors/aliases
    seen: dict[str, object] = {}

    def share(o):
        if isinstance(o, dict):
            for k in list(o):
                o[k] = share(o[k])
            key = json.dumps(o, sort_keys=True, default=repr)
            if len(o) >= 1 and rng.random() < 0.8:
                if key in seen:
                    return seen[key]
                seen[key] = o
            return o
        if isinstance(o, list):
            o = [share(x) for x in o]
            key = "L" + json.dumps(o, sort_keys=True, default=repr)
            if len(o) >= 1 and rng.random() < 0.8:
                if key in seen:
                    stats["probe.rewrite_aliased_list"] = stats.get("probe.rewrite_aliased_list", 0) + 1
                    return seen[key]
                seen[key] = o
            return o
        return o

    shared = share(copy.deepcopy(variant)) if rng.random() < 0.5 else variant
    kw = {"sort_keys": False}
    if style == "flow":
        kw["default_flow_style"] = True
        stats["probe.rewrite_flow_style"] = stats.get("probe.rewrite_flow_style", 0) + 1
    elif style == "mixed":
        kw["default_flow_style"] = None
    elif style == "quoted":
        kw["default_style"] = rng.choice(['"', "'"])
    else:
        kw["default_flow_style"] = False
        kw["indent"] = rng.choice([2, 4, 6])
    kw["width"] = rng.choice([40, 80, 1000])
    text = yaml.dump(shared, Dumper=D, **kw)
    return text, variant


def _strict_eq(a, b) -> bool:
    if type(a) is not type(b):
        return False
    if isinstance(a, dict):
        return set(a) == set(b) and all(_strict_eq(a[k], b[k]) for k in a)
    if isinstance(a, list):
        return len(a) == len(b) and all(_strict_eq(x, y) for x, y in zip(a, b))
    return a == b


# ---------------------------------------------------------------- identities
def _inspect_ids(stdout: str) -> dict:
    out = {}
    for line in stdout.splitlines():
        m = re.match(r"^- Semantic ID:\s*(\S+)", line)
        if m:
            out["semantic_id"] = m.group(1)
        m = re.match(r"^- Config ID:\s*(\S+)", line)
        if m:
            out["config_id"] = m.group(1)
        m = re.match(r"^- Run-Space Config ID:\s*(\S+)", line)
        if m:
            out["run_space_spec_id"] = m.group(1)
        m = re.match(r"^Required Context Keys:\s*(.*)$", line)
        if m:
            out["required_context_keys"] = m.group(1).strip()
    return out


def id_record(full_cfg: dict, text: str, ctx: dict, init_data, w, stats: dict) -> dict:
    """Compute identities along the three paths in the current world (cwd = somewhere in the sandbox)."""
    import yaml
    from semantiva.inspection import build_inspection_payload
    from semantiva.pipeline.graph_builder import compute_pipeline_id
    with open("cfg.yaml", "w") as f:
        f.write(text)
    loaded = yaml.safe_load(text)
    rec: dict = {}
    payload = build_inspection_payload(loaded)
    rec["payload"] = json.dumps(payload, sort_keys=True, default=repr)
    rec["payload_ids"] = {"semantic_id": payload["identity"]["semantic_id"], "config_id": payload["identity"]["config_id"],
                          "uuids": [n["uuid"] for n in payload["pipeline_spec_canonical"]["nodes"]],
                          "node_semantic_ids": {n["uuid"]: n["node_semantic_id"] for n in payload["pipeline_spec_canonical"]["nodes"]},
                          "required": payload["required_context_keys"]}
    r = harness.run_cli(["inspect", "cfg.yaml"])
    rec["inspect_code"] = r["code"]
    rec["inspect_ids"] = _inspect_ids(r["stdout"])
    # each path starts from its OWN load of the text (inspect, construction and run are separate uses of one file)
    loaded2 = yaml.safe_load(text)
    p = harness.make_pipeline(loaded2["pipeline"]["nodes"])
    rec["pipeline_ids"] = {"uuids": [n["node_uuid"] for n in p.canonical_spec["nodes"]],
                           "pipeline_id": compute_pipeline_id(p.canonical_spec)}
    # library loader on a path that held ANOTHER configuration a moment ago (same name, rewritten within the same second)
    from semantiva.configurations import load_pipeline_from_yaml
    other = {"extensions": ["svsim.lib"], "pipeline": {"nodes": [{"processor": "SvSourceDefault"}, {"processor": "SvAddDefault"}]}}
    with open("same_path.yaml", "w") as f:
        f.write(yaml.safe_dump(other))
    load_pipeline_from_yaml("same_path.yaml")
    with open("same_path.yaml", "w") as f:
        f.write(text)
    lp = harness.make_pipeline(list(load_pipeline_from_yaml("same_path.yaml")))
    rec["loader_ids"] = {"uuids": [n["node_uuid"] for n in lp.canonical_spec["nodes"]], "pipeline_id": compute_pipeline_id(lp.canonical_spec)}
    loaded3 = yaml.safe_load(text)
    sc = {"nodes": loaded3["pipeline"]["nodes"], "context": ctx, "init_data": init_data, "faults": []}
    detail = random.Random(len(text) + len(w.exec_log)).choice(harness.DETAILS)     # identities do not depend on the detail level
    rec["trace_detail"] = detail
    rr = harness.run_scenario(sc, w, trace_mode="file", detail=detail, name=f"idr{len(w.exec_log)}")
    recs, _ = harness.parse_lines(rr["emissions"])
    st = next((x for x in recs if x.get("record_type") == "pipeline_start"), None)
    if st is None or not rr["outcome"]["ok"]:
        rec["trace_ids"] = None
        rec["run_error"] = f"{rr['outcome'].get('exc_type')}: {rr['outcome'].get('exc_msg')}"
    else:
        meta = st.get("meta") or {}
        rec["trace_ids"] = {"pipeline_id": st.get("pipeline_id"), "semantic_id": meta.get("semantic_id"),
                            "config_id": meta.get("config_id"), "node_semantic_ids": meta.get("node_semantic_ids"),
                            "uuids": [n["node_uuid"] for n in (st.get("pipeline_spec_canonical") or {}).get("nodes", [])]}
        # the same Pipeline object runs the configuration again (what a run-space launch does): the identities attached to
        # the second pipeline_start are still those of the configuration
        rr2 = harness.run_scenario(sc, w, trace_mode="file", detail=detail, pipeline=rr["pipeline"], name=f"idr2_{len(w.exec_log)}")
        recs2, _ = harness.parse_lines(rr2["emissions"])
        st2 = next((x for x in recs2 if x.get("record_type") == "pipeline_start"), None)
        if st2 is not None:
            meta2 = st2.get("meta") or {}
            rec["trace_ids_second_run"] = {"pipeline_id": st2.get("pipeline_id"), "semantic_id": meta2.get("semantic_id"),
                                           "config_id": meta2.get("config_id"), "node_semantic_ids": meta2.get("node_semantic_ids"),
                                           "uuids": [n["node_uuid"] for n in (st2.get("pipeline_spec_canonical") or {}).get("nodes", [])]}
    return rec


def _twin(a: dict) -> dict | None:
    """A different configuration that is element-wise EQUAL to A but differs in scalar type (1.0 vs 1): sweep value
    lists with integral floats are rewritten as ints. Used only as prior history."""
    t = copy.deepcopy(a)
    changed = False
    for n in t["nodes"]:
        sw = (n.get("derive") or {}).get("parameter_sweep")
        if not sw:
            continue
        for v in sw.get("variables", {}).values():
            if isinstance(v, dict) and isinstance(v.get("values"), list) and all(isinstance(x, float) and x.is_integer() for x in v["values"]):
                v["values"] = [int(x) for x in v["values"]]
                changed = True
    return t if changed else None


def _history(ops: list[str], sc: dict, w, stats: dict) -> None:
    A = dict(sc["A"], faults=[])
    B = dict(sc["B"], faults=[])
    T = _twin(sc["A"])
    reuse = None
    for i, op in enumerate(ops):
        name = f"h{len(w.exec_log)}_{i}"
        if op == "build_A":
            harness.make_pipeline(A["nodes"])
        elif op == "build_B":
            harness.make_pipeline(B["nodes"])
        elif op == "run_A":
            harness.run_scenario(A, w, trace_mode="none", name=name)
        elif op == "run_B":
            harness.run_scenario(B, w, trace_mode="none", name=name)
        elif op == "run_A_traced":
            harness.run_scenario(A, w, trace_mode="file", detail="all", name=name)
        elif op == "run_B_traced":
            harness.run_scenario(B, w, trace_mode="dir", detail="hash", name=name)
        elif op == "run_A_traced_reuse":
            if reuse is None:
                reuse = harness.make_pipeline(A["nodes"])
            else:
                if any("derive" in n for n in A["nodes"]):
                    stats["probe.reused_pipeline_second_traced_run_with_sweep"] = stats.get("probe.reused_pipeline_second_traced_run_with_sweep", 0) + 1
            harness.run_scenario(A, w, trace_mode="file", detail="all", pipeline=reuse, name=name)
        elif op == "run_A_failing":
            f = dict(A, faults=[{"site": "executor_pre", "kind": "exception", "node": 0}])
            harness.run_scenario(f, w, trace_mode="file", detail="hash", name=name)
            stats["probe.history_contains_failing_run"] = stats.get("probe.history_contains_failing_run", 0) + 1
            stats["fault.exception"] = stats.get("fault.exception", 0) + 1
        elif op in ("inspect_twin", "run_twin_traced"):
            if T is None:
                continue
            stats["probe.history_contains_type_variant_twin"] = stats.get("probe.history_contains_type_variant_twin", 0) + 1
            if op == "inspect_twin":
                from semantiva.inspection import build_inspection_payload
                build_inspection_payload({"pipeline": {"nodes": copy.deepcopy(T["nodes"])}})
            else:
                harness.run_scenario(dict(T, faults=[]), w, trace_mode="file", detail="hash", name=name)
        elif op == "inspect_A_extended_cli":
            # `semantiva inspect --extended` on A earlier in the same interpreter (renders the per-node / sweep details)
            import yaml as _y
            with open(f"hist_ext_{i}.yaml", "w") as fh:
                fh.write(_y.safe_dump({"extensions": ["svsim.lib"], "pipeline": {"nodes": copy.deepcopy(A["nodes"])}}, sort_keys=False))
            harness.run_cli(["inspect", "--extended", f"hist_ext_{i}.yaml"])
            stats["probe.history_contains_extended_inspect"] = stats.get("probe.history_contains_extended_inspect", 0) + 1
        elif op in ("inspect_A", "inspect_B"):
            from semantiva.inspection import build_inspection_payload
            build_inspection_payload({"pipeline": {"nodes": copy.deepcopy((A if op.endswith("A") else B)["nodes"])}})


def full_config(sc: dict) -> dict:
    cfg = {"extensions": ["svsim.lib"], "pipeline": {"nodes": copy.deepcopy(sc["A"]["nodes"])}}
    if sc.get("run_space"):
        cfg["run_space"] = copy.deepcopy(sc["run_space"])
    return cfg


def world_record(sc: dict, wd: dict, seed: int, stats: dict) -> dict:
    cfg = full_config(sc)
    w = SimWorld(seed ^ wd["seed"], lane="c04", tz=wd["tz"])
    try:
        if wd["cwd"]:
            os.makedirs(wd["cwd"], exist_ok=True)
            os.chdir(wd["cwd"])
        _history(wd["history"], sc, w, stats)
        text, variant = rewrite_yaml(cfg, wd["rewrite"], stats)
        from ..seams import pristine_load
        if not _strict_eq(pristine_load(text), variant):
            raise RuntimeError(f"harness: YAML rewrite is not cosmetic\n{text}")
        try:
            rec = id_record(cfg, text, sc["A"]["context"], sc["A"]["init_data"], w, stats)
        except Exception as e:  # noqa: BLE001 - the code under test refused this spelling of the configuration
            rec = {"failed": f"{type(e).__name__}: {e}", "trace_ids": None, "payload": None}
        if wd.get("churn"):
            rec["churn_violations"] = _churn(sc, wd["churn"], w, stats)
        rec["world"] = {"tz": wd["tz"], "cwd": wd["cwd"], "history": wd["history"]}
        rec["yaml"] = text
        return rec
    finally:
        w.close()


def _child_main() -> int:
    harness.setup_process()
    sc = json.loads(sys.stdin.read())
    stats: dict = {}
    wd = {"seed": sc["child_world"], "tz": "<-08>8", "cwd": "fresh", "history": [], "rewrite": sc["child_world"]}
    rec = world_record(sc, wd, 99, stats)
    print("RECORD " + json.dumps(rec, default=repr))
    return 0


def _fresh_interpreter(sc: dict) -> dict:
    env = dict(os.environ, PYTHONHASHSEED=str(sc["hashseed"]))
    from .. import scratch_root
    other_cwd = os.path.join(scratch_root(), "c04_cwd")       # the fresh interpreter also STARTS (imports) in another directory
    os.makedirs(other_cwd, exist_ok=True)
    p = subprocess.run([sys.executable, "-m", "svsim.props.c04", "child"], input=json.dumps(sc), env=env, cwd=other_cwd,
                       capture_output=True, text=True)
    for line in p.stdout.splitlines():
        if line.startswith("RECORD "):
            return json.loads(line[7:])
    raise RuntimeError(f"fresh interpreter failed: {p.stdout[-1500:]} {p.stderr[-1500:]}")


def compare(recs: list[dict]) -> list[dict]:
    out = []
    r0 = recs[0]
    for i, r in enumerate(recs):
        tag = "fresh_interpreter" if r.get("fresh") else "in_process"
        where = f"world {i} ({tag}, tz={r['world']['tz']}, cwd={r['world']['cwd']!r}, history={r['world']['history']})"
        # "the whole inspection payload ... identical under cosmetic rewrites ... across processes, hash seeds, working
        #  directories, wall-clock time and whatever was built or run earlier in the process"
        if r["payload"] != r0["payload"]:
            a, b = json.loads(r0["payload"]), json.loads(r["payload"])
            d = _first_diff(a, b)
            out.append(oracles.V("payload", f"{tag}:{_field(d)}", f"{where} vs world 0: {d}"))
        if r.get("trace_ids") is not None and any(r["trace_ids"].get(k) is None for k in ("semantic_id", "config_id", "node_semantic_ids")):
            out.append(oracles.V("paths", "identities_absent_from_pipeline_start", f"{where}: pipeline_start.meta lacks identities at trace detail "
                                 f"{r.get('trace_detail')!r}: {r['trace_ids']}"))
        for path in ("pipeline_ids", "trace_ids"):
            if r[path] is None or r0[path] is None:
                continue
            if r[path] != r0[path]:
                d = _first_diff(r0[path], r[path])
                out.append(oracles.V(path, f"{tag}:{_field(d)}", f"{where} vs world 0: {d}"))
        if r["inspect_ids"] != r0["inspect_ids"]:
            out.append(oracles.V("inspect_stdout", f"{tag}:{_field(_first_diff(r0['inspect_ids'], r['inspect_ids']))}", f"{where} vs world 0: {r0['inspect_ids']} vs {r['inspect_ids']}"))
        # three paths agree inside one world
        pi, pl, tr, ins = r["payload_ids"], r["pipeline_ids"], r["trace_ids"], r["inspect_ids"]
        if pi["uuids"] != pl["uuids"]:
            out.append(oracles.V("paths", "uuids_inspection_vs_pipeline", f"{where}: {pi['uuids']} vs {pl['uuids']}"))
        if r.get("loader_ids") and r["loader_ids"] != pl:
            out.append(oracles.V("paths", "load_pipeline_from_yaml_vs_construction", f"{where}: file loaded through load_pipeline_from_yaml gives "
                                 f"{r['loader_ids']['pipeline_id']} but the same text gives {pl['pipeline_id']}"))
        if ins.get("semantic_id") != pi["semantic_id"] or ins.get("config_id") != pi["config_id"]:
            out.append(oracles.V("paths", "inspect_stdout_vs_payload", f"{where}: {ins} vs {pi['semantic_id']}/{pi['config_id']}"))
        if tr is not None:
            # "The identities printed by inspect equal those attached to pipeline_start records when the same configuration runs."
            if tr["uuids"] != pl["uuids"]:
                out.append(oracles.V("paths", "uuids_trace_vs_pipeline", f"{where}: {tr['uuids']} vs {pl['uuids']}"))
            if tr["pipeline_id"] != pl["pipeline_id"]:
                out.append(oracles.V("paths", "pipeline_id_trace_vs_construction", f"{where}: {tr['pipeline_id']} vs {pl['pipeline_id']}"))
            if tr["semantic_id"] != ins.get("semantic_id"):
                out.append(oracles.V("paths", "semantic_id_inspect_vs_pipeline_start", f"{where}: inspect {ins.get('semantic_id')} vs trace {tr['semantic_id']}"))
            if tr["config_id"] != ins.get("config_id"):
                out.append(oracles.V("paths", "config_id_inspect_vs_pipeline_start", f"{where}: inspect {ins.get('config_id')} vs trace {tr['config_id']}"))
            if tr["node_semantic_ids"] != pi["node_semantic_ids"]:
                out.append(oracles.V("paths", "node_semantic_ids_inspection_vs_pipeline_start", f"{where}: {pi['node_semantic_ids']} vs {tr['node_semantic_ids']}"))
            tr2 = r.get("trace_ids_second_run")
            if tr2 is not None and tr2 != tr:
                out.append(oracles.V("paths", f"pipeline_start_of_second_run_of_one_pipeline:{_field(_first_diff(tr, tr2))}",
                                     f"{where}: first run {tr} vs second run {tr2}"))
    return out


def _first_diff(a, b, path="") -> str:
    if type(a) is not type(b):
        return f"{path}: {a!r} vs {b!r}"
    if isinstance(a, dict):
        for k in sorted(set(a) | set(b), key=str):
            if k not in a or k not in b:
                return f"{path}/{k}: present on one side only"
            d = _first_diff(a[k], b[k], f"{path}/{k}")
            if d:
                return d
        return ""
    if isinstance(a, list):
        if len(a) != len(b):
            return f"{path}: length {len(a)} vs {len(b)}"
        for i, (x, y) in enumerate(zip(a, b)):
            d = _first_diff(x, y, f"{path}[{i}]")
            if d:
                return d
        return ""
    return "" if a == b else f"{path}: {a!r} vs {b!r}"


def _field(d: str) -> str:
    p = d.split(":")[0]
    p = re.sub(r"\[\d+\]", "[]", p)
    p = re.sub(r"[0-9a-f]{8}-[0-9a-f-]{27}", "<uuid>", p)
    return p[:70]


def execute(sc: dict, seed: int) -> dict:
    stats: dict = {}
    recs = []
    for wd in sc["worlds"]:
        recs.append(world_record(sc, wd, seed, stats))
    failed = [r for r in recs if r.get("failed")]
    if failed and len(failed) < len(recs):
        # "identical under cosmetic rewrites": one spelling of the configuration is processed, another one is refused
        r = failed[0]
        v = oracles.V("payload", "cosmetic_rewrite_refused", f"world (tz={r['world']['tz']}, cwd={r['world']['cwd']!r}) fails with {r['failed']} on a cosmetic "
                      f"rewrite of a configuration that other worlds process; text:\n{r['yaml'][:700]}")
        return {"violations": [v], "stats": stats, "digests": [_digest(sc["A"])], "nontrivial": [], "sample": {"yaml": r["yaml"][:600]},
                "digest": _digest([x.get("failed") for x in recs])}
    if any(r["trace_ids"] is None for r in recs):
        stats["discarded_base_mismatch"] = 1
        return {"violations": [], "stats": stats, "digests": [], "nontrivial": [], "note": recs[0].get("run_error")}
    if sc.get("hashseed") is not None:
        fr = _fresh_interpreter(sc)
        fr["fresh"] = True
        recs.append(fr)
        stats["probe.fresh_interpreter_other_hashseed"] = 1
    if len({r["world"]["cwd"] for r in recs}) > 1:
        stats["probe.world_pair_differs_in_cwd"] = 1
    if sc.get("run_space"):
        stats["probe.with_run_space"] = 1
    viols = compare(recs)
    for r in recs:
        viols.extend(r.get("churn_violations") or [])
    seen, uniq = set(), []
    for v in viols:
        kk = (v["clause"], v["key"])
        if kk not in seen:
            seen.add(kk)
            uniq.append(v)
    cd = _digest(sc["A"])
    stats["worlds"] = len(recs)
    sample = {"nodes": sc["A"]["nodes"], "run_space": sc.get("run_space"), "worlds": [r["world"] for r in recs],
              "yaml_variant": recs[1]["yaml"][:600] if len(recs) > 1 else ""}
    return {"violations": uniq, "stats": stats, "digests": [cd], "nontrivial": [f"{cd}/{_digest(r['world'])}" for r in recs],
            "sample": sample, "digest": _digest([r["payload"] for r in recs] + [r["trace_ids"] for r in recs])}


def shrink_candidates(sc: dict):
    if sc.get("hashseed") is not None:
        yield dict(sc, hashseed=None)
    ws = sc["worlds"]
    for i in reversed(range(len(ws))):
        if len(ws) > 2 or (len(ws) == 2 and sc.get("hashseed") is not None):
            yield dict(sc, worlds=ws[:i] + ws[i + 1:])
    for i, wd in enumerate(ws):
        if wd["history"]:
            for j in reversed(range(len(wd["history"]))):
                w2 = dict(wd, history=wd["history"][:j] + wd["history"][j + 1:])
                yield dict(sc, worlds=ws[:i] + [w2] + ws[i + 1:])
    if sc.get("run_space"):
        yield dict(sc, run_space=None)
    a = sc["A"]
    n = len(a["nodes"])
    for i in reversed(range(n)):
        if n <= 1:
            break
        b = copy.deepcopy(a)
        del b["nodes"][i]
        t = gen.recompute_truth(b)
        if t is None or any(x["missing"] or not x["type_ok"] for x in t):
            continue
        yield dict(sc, A=b)


if __name__ == "__main__":
    if len(sys.argv) > 1 and sys.argv[1] == "child":
        sys.exit(_child_main())
