"""C15 - every queued job's Future completes once, with that job's own result.

Real QueueSemantivaOrchestrator.run_forever (master), 1-4 real worker_loop tasks and a client
task share one real InMemorySemantivaTransport under the cooperative scheduler with virtual time.
Jobs are distinct generated pipelines/payloads; some fail (config-borne failure at a node), some
are slow (virtual stall inside a leaf); workers may start late.
"""
from __future__ import annotations

import copy
import hashlib
import json
import os
import random

from .. import gen, harness, oracles, threads
from ..world import SimWorld

LEVEL = "exploration"
RULE = ("seeded batches of 1..40 jobs (distinct generated pipelines and payloads; most batches 1-8 jobs, a 5% tail up to 40) x "
        "1..4 workers x enqueue gaps x failing job at a seeded batch position x slow jobs x late workers x one of 9 schedule "
        "strategies (fair ones only: random walk p in {.02,.1,.3,.6}, bursty, priority-based with periodic re-draw). distinct_nontrivial = distinct context-switch-trace hashes among runs in which every job was picked up by "
        "a worker."
        " Further seeded dimensions: 0-3 failing jobs (often adjacent, two-argument exception class), fire-and-forget jobs, YAML-path jobs incl. a rewritten shared path, a follow-up job enqueued from a done-callback, worker churn (a worker stopped mid-batch and replaced), a bounded pool executor (1-2 pool tasks). Seventh round: protocol-like keys (error/status/result/metadata) in job contexts.")
REAL_COMPONENTS = ["QueueSemantivaOrchestrator.enqueue/run_forever", "worker_loop", "InMemorySemantivaTransport",
                   "Pipeline + LocalSemantivaOrchestrator + SequentialSemantivaExecutor inside each job"]
STUB_COMPONENTS = ["queue.Queue / time.sleep / threading primitives seen by the job-queue modules (SimQueue, virtual sleep, SimLock)",
                   "client task (enqueue + polling futures)", "leaf processors", "scheduler"]
ASSUMPTIONS = ["bounded liveness: once the last job is enqueued and no fault is pending every Future is done within "
               "10 s + 2 s x jobs (+ injected stall time) of virtual time",
               "no pre-emption inside semantiva.core / pipeline execution (a job run is one scheduling step)"]
REQUIRED_PROBES = ["failing_job", "slow_job", "multi_worker", "late_worker", "batch_ge_10", "fire_and_forget_job_mixed_in", "two_failing_jobs",
                   "same_yaml_path_rewritten", "failing_job_with_two_argument_exception", "job_enqueued_from_done_callback", "worker_stopped_and_replaced_mid_batch", "worker_with_bounded_pool_executor", "job_context_with_protocol_like_key", "job_whose_configuration_cannot_be_loaded", "pending_future_cancelled_by_caller", "follow_up_job_fed_with_returned_context"]
CONFIG = {
    "quick": {"runs": 2500, "budget_s": 240, "timeout_s": 120, "per_fork": 4},
    "thorough": {"runs": 150000, "budget_s": 1600, "timeout_s": 180, "per_fork": 6},
    "shrink_s": 50.0,
}
# The liveness clauses presuppose a fair scheduler; PCT is strict-priority (unfair by design: on this virtual-time
# model the lowest-priority task starves while others poll), so C15 samples the probabilistically fair strategies only.
FAIR_STRATEGIES = [s for s in threads.STRATEGIES if s["kind"] != "pct"]   # random walk, bursty, pct_fair
TARGETS = ("execution/transport/in_memory.py", "execution/transport/base.py",
           "execution/job_queue/queue_orchestrator.py", "execution/job_queue/worker.py")


def generate(rng: random.Random, tier: str, seed: int) -> dict:
    r = rng.random()
    njobs = rng.randint(1, 8) if r < 0.8 else (rng.randint(9, 16) if r < 0.95 else rng.randint(17, 40))
    jobs = []
    # 0..3 failing jobs; when several, often adjacent (two failures reported by one worker back to back)
    fail_set: set[int] = set()
    if rng.random() < 0.55:
        first = rng.randrange(njobs)
        fail_set.add(first)
        extra = rng.choice([0, 0, 1, 1, 2])
        for e in range(extra):
            fail_set.add((first + 1 + e) % njobs if rng.random() < 0.7 else rng.randrange(njobs))
    for j in range(njobs):
        base = gen.gen_pipeline(rng, max_nodes=4, allow_file_sink=False)
        job = {"nodes": base["nodes"], "context": base["context"], "init_data": base["init_data"], "gap": rng.choice([0.0, 0.0, 0.01, 0.15, 0.6]),
               "no_future": rng.random() < 0.15,            # fire-and-forget job (enqueue without return_future)
               "ctx_none": rng.random() < 0.6,              # an empty context is passed as context=None
               "as_yaml": rng.random() < 0.12,              # pipeline_cfg given as a path to a YAML file
               "ctx_subclass": rng.random() < 0.15,         # the caller's context is an instance of its own ContextType subclass
               # an explicit registry profile travels with the job: one that names extra search paths, or one the worker cannot
               # apply (an extension that is not installed there) - the worker warns and the job still runs and reports
               "profile": rng.choice([None] * 8 + ["with_paths", "cannot_be_applied"])}
        if rng.random() < 0.12:
            # legal user keys that look like protocol fields: they are the job's own data and must come back untouched
            job["context"] = dict(job["context"], **{rng.choice(["error", "status", "result", "metadata"]): rng.choice([0.125, "error", "failed", 1.0])})
            job["protocol_like_key"] = True
        if j in fail_set and rng.random() < 0.15:
            # the job itself cannot be loaded: a YAML path that does not exist, or a configuration that is not a node list
            job["fail"] = [rng.choice(["yaml_path_missing", "config_not_a_node_list"]), 0]
            job["unloadable"] = job["fail"][0]
        elif j in fail_set:
            fs = [f for f in gen.applicable_failures(base) if f[0] in ("unresolvable", "type_gate", "undeclared_op", "undeclared_ctx", "unknown_param")]
            if rng.random() < 0.25 and base["truth"][-1]["out"] == "float":
                # the pipeline raises a domain exception whose constructor takes two arguments
                job["nodes"] = job["nodes"] + [{"processor": "SvRaiseOdd"}]
                job["fail"] = ["odd_exception", len(job["nodes"]) - 1]
            elif fs:
                kind, k = rng.choice(fs)
                f = gen.apply_failure(base, kind, k)
                job["nodes"] = f["nodes"]
                job["fail"] = [kind, k]
        elif rng.random() < 0.15 and base["truth"][-1]["out"] == "float":
            job["nodes"] = job["nodes"] + [{"processor": "SvSlow", "parameters": {"delay": rng.choice([0.3, 1.0, 2.5])}}]
            job["slow"] = True
        jobs.append(job)
    chained = None
    if rng.random() < 0.15:
        c1 = gen.gen_pipeline(rng, max_nodes=3, allow_file_sink=False)
        chained = {"nodes": c1["nodes"], "context": c1["context"], "init_data": c1["init_data"],     # enqueued from a done-callback
                   "feed_result": rng.random() < 0.5}
    yaml_pair = None
    if rng.random() < 0.2:
        a1 = gen.gen_pipeline(rng, max_nodes=3, allow_file_sink=False)
        a2 = gen.gen_pipeline(rng, max_nodes=3, allow_file_sink=False)
        yaml_pair = [{"nodes": a1["nodes"], "context": a1["context"], "init_data": a1["init_data"]},
                     {"nodes": a2["nodes"], "context": a2["context"], "init_data": a2["init_data"]}]
    # the caller gives up on one job: it cancels that job's pending Future right after enqueuing it (legal use of the Future API)
    cancel_at = rng.randrange(njobs) if (njobs >= 2 and rng.random() < 0.1) else None
    nworkers = rng.randint(1, 4)
    # worker churn: one worker is told to stop at some instant (scale-down / rolling restart), a replacement starts later
    churn = {"victim": rng.randrange(nworkers), "at": rng.choice([0.0, 0.02, 0.1, 0.3, 1.0]), "replacement_delay": rng.choice([0.0, 0.05, 0.5])} \
        if rng.random() < 0.2 else None
    # the worker's executor: the default sequential one, or a bounded asynchronous pool (1-2 threads) shared by nothing else
    pool = rng.choice([1, 1, 2]) if rng.random() < 0.2 else None
    return {"cancel_at": cancel_at, "churn": churn, "pool": pool, "jobs": jobs, "workers": [{"start_delay": rng.choice([0.0, 0.0, 0.0, 0.4, 1.5]), "poll": rng.choice([0.1, 0.1, 0.05, 0.2])}
                                      for _ in range(nworkers)],
            "yaml_pair": yaml_pair, "chained": chained, "strategy": rng.choice(FAIR_STRATEGIES), "sched_seed": rng.getrandbits(48), "choices": None}


class SimFuture:
    """Future of the simulated pool: result() blocks the calling TASK (virtual), not the OS thread."""

    def __init__(self):
        self._evt = threads.SimEvent()
        self._res = None
        self._exc = None

    def set_result(self, r):
        self._res = r
        self._evt.set()

    def set_exception(self, e):
        self._exc = e
        self._evt.set()

    def done(self):
        return self._evt.is_set()

    def result(self, timeout=None):
        self._evt.wait(timeout)
        if not self._evt.is_set():
            raise TimeoutError()
        if self._exc is not None:
            raise self._exc
        return self._res

    def exception(self, timeout=None):
        self._evt.wait(timeout)
        return self._exc


def _make_pool_class():
    from semantiva.execution.executor.executor import SemantivaExecutor

    class _SimPoolExecutor(SemantivaExecutor):
        """A bounded asynchronous SemantivaExecutor (existing executor seam): n pool tasks under the scheduler."""

        def __init__(self, sched, n, stop, tag):
            self.q = threads.SimQueue()
            self.closed = False          # set by shutdown(), which the owner calls after its worker loop has returned
            for k in range(n):
                sched.spawn(f"pool_{tag}_{k}", self._run)

        def submit(self, fn, *args, ser_hooks=None, **kwargs):
            f = SimFuture()
            self.q.put((f, fn, args, kwargs))
            return f

        def _run(self):
            import queue as _q
            while True:
                try:
                    f, fn, args, kwargs = self.q.get(timeout=0.2)
                except _q.Empty:
                    if self.closed:
                        return          # the pool outlives its worker: it only ends once nobody can submit any more
                    continue
                try:
                    f.set_result(fn(*args, **kwargs))
                except BaseException as e:  # noqa: BLE001
                    f.set_exception(e)

        def shutdown(self):
            self.closed = True

    return _SimPoolExecutor


def SimPoolExecutor(sched, n, stop, tag):
    return _make_pool_class()(sched, n, stop, tag)


def _expected(job: dict, w) -> dict:
    if job.get("unloadable"):
        return {"ok": False, "exc_type": None, "exc_msg": None}      # loading the job fails; any exception is this job's own
    p = harness.make_pipeline(job["nodes"])
    return harness.outcome_of(lambda: p.process(harness.make_payload(job)))


def execute(sc: dict, seed: int) -> dict:
    from semantiva.context_processors import ContextType

    class SvTaggedContext(ContextType):
        """A caller's own ContextType subclass: keeps a tag outside the key/value store."""

        def __init__(self, initial=None, tag="caller"):
            super().__init__(initial)
            self.tag = tag
    from semantiva.data_types import NoDataType
    from semantiva.examples.test_utils import FloatDataType
    from semantiva.execution.executor.executor import SequentialSemantivaExecutor
    from semantiva.execution.job_queue import queue_orchestrator as qo
    from semantiva.execution.job_queue import worker as wk
    from semantiva.execution.transport import in_memory as im
    from semantiva.registry.bootstrap import RegistryProfile
    from ..world import _data_repr, ctx_snapshot

    stats: dict = {}
    w = SimWorld(seed, lane="c15")
    try:
        # reference: the same config run directly on a copy of the same payload (the statement's own reference)
        expected = [_expected(j, w) for j in sc["jobs"]]
        for j, e in zip(sc["jobs"], expected):
            if j.get("fail") and e["ok"]:
                stats["discarded_base_mismatch"] = 1
                return {"violations": [], "stats": stats, "digests": [], "nontrivial": []}
            if not j.get("fail") and not e["ok"]:
                stats["discarded_base_mismatch"] = 1
                return {"violations": [], "stats": stats, "digests": [], "nontrivial": []}
        strat = dict(sc["strategy"])
        strat.setdefault("est_steps", 3000)
        sched = threads.Scheduler(sc["sched_seed"], targets=TARGETS, strategy=strat, choices=sc.get("choices"),
                                  max_steps=600_000)
        w.stall_hook = threads.sim_sleep
        njobs = len(sc["jobs"])
        stall_total = sum(n.get("parameters", {}).get("delay", 0.0) for j in sc["jobs"] for n in j["nodes"] if n.get("processor") == "SvSlow")
        bound = 10.0 + 2.0 * njobs + stall_total
        if sc.get("churn"):
            bound += sc["churn"]["at"] + sc["churn"]["replacement_delay"] + 2.0
        futures: list = [None] * njobs
        pair_futures: list = []
        chain_futures: list = []
        chain_expected = _expected(sc["chained"], w) if sc.get("chained") else None
        pair_expected = [_expected(j, w) for j in (sc.get("yaml_pair") or [])]
        info: dict = {"t_last_enqueue": None, "t_all_done": None, "gave_up": False}
        with threads.Installed(sched, [im, qo, wk]):
            tr = im.InMemorySemantivaTransport()
            stop = threads.SimEvent()
            lg = harness.quiet_logger()
            orch = qo.QueueSemantivaOrchestrator(tr, stop_event=stop, logger=lg)

            def master():
                orch.run_forever()

            wstops: list = []      # every worker has its own stop event (set at shutdown, or earlier for the churn victim)

            def make_executor(i):
                if sc.get("pool"):
                    stats["probe.worker_with_bounded_pool_executor"] = 1
                    return SimPoolExecutor(sched, sc["pool"], stop, f"w{i}")
                return SequentialSemantivaExecutor()

            def worker(i, spec):
                ws = threads.SimEvent()
                wstops.append(ws)
                if stop.is_set():
                    ws.set()            # a replacement created after the shutdown was announced

                def run():
                    if spec["start_delay"]:
                        threads.sim_sleep(spec["start_delay"])
                    ex = make_executor(i)
                    try:
                        wk.worker_loop(i, tr, ex, ws, logger=lg, poll_interval=spec["poll"])
                    finally:
                        if hasattr(ex, "shutdown"):
                            ex.shutdown()
                return run

            def churner():
                ch = sc["churn"]
                threads.sim_sleep(ch["at"])
                wstops[ch["victim"]].set()          # the victim finishes what it holds and leaves (its finally closes the transport)
                sched.probe("worker_stopped_mid_batch")
                if ch["replacement_delay"]:
                    threads.sim_sleep(ch["replacement_delay"])
                sched.spawn("worker_replacement", worker(100 + ch["victim"], {"start_delay": 0.0, "poll": 0.1}))

            def client():
                for i, job in enumerate(sc["jobs"]):
                    if job["gap"]:
                        threads.sim_sleep(job["gap"])
                    data = None if job["init_data"] is None else FloatDataType(float(job["init_data"]))
                    ctx_arg = None if (not job["context"] and job.get("ctx_none")) else ContextType(copy.deepcopy(job["context"]))
                    if ctx_arg is not None and job.get("ctx_subclass"):
                        # "that job's payload" is the object the caller handed in, whatever ContextType subclass it is
                        ctx_arg = SvTaggedContext(copy.deepcopy(job["context"]))
                        stats["probe.context_is_a_subclass"] = stats.get("probe.context_is_a_subclass", 0) + 1
                    cfg_arg = copy.deepcopy(job["nodes"])
                    if job.get("unloadable") == "yaml_path_missing":
                        cfg_arg = os.path.join(w.sandbox, f"no_such_job_{i}.yaml")
                        stats["fault.job_config_unloadable"] = stats.get("fault.job_config_unloadable", 0) + 1
                    elif job.get("unloadable") == "config_not_a_node_list":
                        cfg_arg = [copy.deepcopy(job["nodes"][0]), "this entry is not a node mapping"]
                        stats["fault.job_config_unloadable"] = stats.get("fault.job_config_unloadable", 0) + 1
                    elif job.get("as_yaml"):
                        harness.write_cli_config({"nodes": job["nodes"]}, f"job_{i}.yaml", executor=False)
                        cfg_arg = os.path.join(w.sandbox, f"job_{i}.yaml")
                        stats["probe.job_given_as_yaml_path"] = stats.get("probe.job_given_as_yaml_path", 0) + 1
                    prof = None
                    if job.get("profile") == "with_paths":
                        prof = RegistryProfile(modules=["svsim.lib", "semantiva.examples.test_utils"], paths=[w.sandbox])
                    elif job.get("profile") == "cannot_be_applied":
                        prof = RegistryProfile(modules=["svsim.lib", "semantiva.examples.test_utils"], extensions=["sv_extension_not_installed_here"])
                        stats["fault.job_profile_cannot_be_applied"] = stats.get("fault.job_profile_cannot_be_applied", 0) + 1
                    futures[i] = orch.enqueue(cfg_arg, data=data, context=ctx_arg,
                                              return_future=not job.get("no_future"), **({"registry_profile": prof} if prof else {}))
                    sched.log("enqueue", i)
                    if sc.get("cancel_at") == i and futures[i] is not None:
                        if futures[i].cancel():
                            stats["fault.future_cancelled_by_caller"] = 1
                    if i == 0 and sc.get("chained") and futures[0] is not None:
                        # a follow-up job is enqueued from the first job's done-callback (runs on whichever task completes it)
                        def _chain(_f, cj=sc["chained"]):
                            d2 = None if cj["init_data"] is None else FloatDataType(float(cj["init_data"]))
                            cctx = copy.deepcopy(cj["context"])
                            if cj.get("feed_result") and not _f.cancelled() and _f.exception() is None:
                                # stage 2 of a two-stage workflow: the follow-up job receives the context the first job RETURNED
                                # (which carries that job's id annotation) plus its own keys
                                merged = ctx_snapshot(_f.result()[1])
                                info["chain_input_ctx"] = dict(merged)
                                merged.update(cctx)
                                cctx = merged
                                stats["probe.follow_up_job_fed_with_returned_context"] = 1
                            chain_futures.append(orch.enqueue(copy.deepcopy(cj["nodes"]), data=d2,
                                                              context=ContextType(cctx), return_future=True))
                        futures[0].add_done_callback(_chain)
                info["t_last_enqueue"] = sched.now
                while True:
                    if all(f.done() for f in futures if f is not None) and all(f.done() for f in chain_futures) and \
                            (not sc.get("chained") or futures[0] is None or chain_futures):
                        info["t_all_done"] = sched.now
                        break
                    if sched.now - info["t_last_enqueue"] > bound:
                        info["gave_up"] = True
                        break
                    threads.sim_sleep(0.05)
                # two more jobs given as the SAME YAML path whose content is rewritten after the first one completed
                if sc.get("yaml_pair") and not info["gave_up"]:
                    path = os.path.join(w.sandbox, "shared_job.yaml")
                    for k, job in enumerate(sc["yaml_pair"]):
                        harness.write_cli_config({"nodes": job["nodes"]}, "shared_job.yaml", executor=False)
                        data = None if job["init_data"] is None else FloatDataType(float(job["init_data"]))
                        f = orch.enqueue(path, data=data, context=ContextType(copy.deepcopy(job["context"])), return_future=True)
                        t0 = sched.now
                        while not f.done() and sched.now - t0 < 15.0:
                            threads.sim_sleep(0.05)
                        pair_futures.append(f)
                # grace period: a duplicate completion would blow up the master here
                threads.sim_sleep(1.0)
                stop.set()
                for ws in list(wstops):
                    ws.set()

            sched.spawn("master", master)
            for i, spec in enumerate(sc["workers"]):
                sched.spawn(f"worker{i}", worker(i, spec))
            sched.spawn("client", client)
            if sc.get("churn"):
                sched.spawn("churner", churner)
            outcome = sched.run(wall_timeout=100.0)
        viols = []
        if outcome != "completed":
            viols.append(oracles.V("scheduler", outcome, f"simulation ended with {outcome}: {sched.events[-3:]}"))
        for name, e in sched.task_errors:
            key = type(e).__name__
            viols.append(oracles.V("task_error", f"{name.rstrip('0123456789')}:{key}", f"task {name} raised {key}: {e}"))
        picked = 0
        if outcome == "completed":
            leftover = len(orch.pending_futures)
            for i, (job, exp, fut) in enumerate(zip(sc["jobs"], expected, futures)):
                failing = bool(job.get("fail"))
                if job.get("no_future"):
                    if fut is not None:
                        viols.append(oracles.V("result", "future_returned_without_request", f"job {i}"))
                    picked += 1
                    continue
                if fut is not None and fut.cancelled():
                    picked += 1         # the caller withdrew its interest in this job; every OTHER job is still owed its result
                    continue
                if fut is None or not fut.done():
                    # "A job whose pipeline raises completes its Future exceptionally instead of leaving the caller waiting forever."
                    # / bounded liveness for ordinary jobs
                    k = "failing_job_future_never_completes" if failing else "future_not_done_within_bound"
                    viols.append(oracles.V("liveness", k, f"job {i}/{njobs} ({'failing ' + str(job['fail']) if failing else 'ok'}) not done "
                                           f"{bound:.1f}s (virtual) after the last enqueue; workers={len(sc['workers'])}"))
                    continue
                picked += 1
                exc = fut.exception()
                if failing:
                    if exc is None:
                        viols.append(oracles.V("result", "failing_job_completed_normally", f"job {i} should fail with {exp['exc_type']} but future result={fut.result()!r}"))
                    elif exp["exc_type"] is not None and (type(exc).__name__ != exp["exc_type"] or str(exc) != exp["exc_msg"]):
                        # "with that job's own result ... no cross-talk": the failure reported must be this job's failure
                        viols.append(oracles.V("result", "failing_job_got_foreign_exception", f"job {i} fails with {exp['exc_type']}: {exp['exc_msg']!r} when run directly, "
                                               f"its future carries {type(exc).__name__}: {str(exc)!r}"))
                    continue
                if exc is not None:
                    viols.append(oracles.V("result", "ok_job_completed_exceptionally", f"job {i}: {type(exc).__name__}: {exc}"))
                    continue
                data, ctx = fut.result()
                got_ctx = ctx_snapshot(ctx)
                jid = got_ctx.pop("job_id", None)
                # "each returned Future completes exactly once with the (data, context) obtained by running that job's
                #  pipeline on that job's payload - the same as running it directly, plus the job-id annotation"
                if harness.canon(_data_repr(data)) != harness.canon(exp["data"]) or harness.canon(got_ctx) != harness.canon(exp["context"]):
                    other = [k for k, e2 in enumerate(expected) if e2["ok"] and harness.canon(_data_repr(data)) == harness.canon(e2["data"])
                             and harness.canon(got_ctx) == harness.canon(e2["context"])]
                    key = "cross_talk" if other else "wrong_result"
                    viols.append(oracles.V("result", key, f"job {i}: got data={_data_repr(data)} ctx={got_ctx}; direct run gives data={exp['data']} ctx={exp['context']}"
                                           + (f"; equals job {other[0]}'s result" if other else "")))
                if sc["jobs"][i].get("ctx_subclass") and sc["jobs"][i]["context"] and type(ctx).__name__ != "SvTaggedContext":
                    # a direct run returns the payload's own context object; the queue must not swap its type
                    viols.append(oracles.V("result", "context_type_changed", f"job {i}: enqueued with a SvTaggedContext, future returned a {type(ctx).__name__}"))
                if not isinstance(jid, str) or not jid:
                    viols.append(oracles.V("result", "job_id_annotation_missing", f"job {i}: context has no job_id annotation"))
        if outcome == "completed" and sc.get("chained") and futures and futures[0] is not None:
            stats["probe.job_enqueued_from_done_callback"] = 1
            if not chain_futures or not chain_futures[0].done():
                viols.append(oracles.V("liveness", "job_enqueued_from_done_callback_never_completes",
                                       f"a job enqueued from job 0's done-callback did not complete within the bound (callback ran: {bool(chain_futures)})"))
            elif chain_expected["ok"] and chain_futures[0].exception() is None:
                data, ctx = chain_futures[0].result()
                got_ctx = ctx_snapshot(ctx)
                got_ctx.pop("job_id", None)
                if info.get("chain_input_ctx") is not None:
                    # reference: the follow-up pipeline run directly on the merged context (minus the annotation)
                    fed = {k: v for k, v in info["chain_input_ctx"].items() if k != "job_id"}
                    fed.update(sc["chained"]["context"])
                    chain_expected = _expected(dict(sc["chained"], context=fed), w)
                if harness.canon(_data_repr(data)) != harness.canon(chain_expected["data"]) or harness.canon(got_ctx) != harness.canon(chain_expected["context"]):
                    viols.append(oracles.V("result", "chained_job_wrong_result", f"got {_data_repr(data)} {got_ctx}"))
        if outcome == "completed" and pair_futures:
            stats["probe.same_yaml_path_rewritten"] = 1
            for k, (fut, exp) in enumerate(zip(pair_futures, pair_expected)):
                if not fut.done():
                    viols.append(oracles.V("liveness", "yaml_path_job_not_done", f"YAML-path job {k} not done"))
                    continue
                if not exp["ok"]:
                    continue
                if fut.exception() is not None:
                    viols.append(oracles.V("result", "yaml_path_job_failed", f"YAML-path job {k}: {fut.exception()!r}"))
                    continue
                data, ctx = fut.result()
                got_ctx = ctx_snapshot(ctx)
                got_ctx.pop("job_id", None)
                if harness.canon(_data_repr(data)) != harness.canon(exp["data"]) or harness.canon(got_ctx) != harness.canon(exp["context"]):
                    viols.append(oracles.V("result", "yaml_path_job_ran_stale_config", f"job {k} given as path shared_job.yaml (rewritten before it was enqueued): got "
                                           f"{_data_repr(data)} {got_ctx}, running the file's pipeline directly gives {exp['data']} {exp['context']}"))
        if any(j.get("fail") and j["fail"][0] == "odd_exception" for j in sc["jobs"]):
            stats["probe.failing_job_with_two_argument_exception"] = 1
        if any(j.get("fail") for j in sc["jobs"]):
            stats["probe.failing_job"] = 1
            stats["fault.failing_job"] = 1
        if stats.get("fault.job_config_unloadable"):
            stats["probe.job_whose_configuration_cannot_be_loaded"] = 1
        if stats.get("fault.future_cancelled_by_caller"):
            stats["probe.pending_future_cancelled_by_caller"] = 1
        if any(j.get("protocol_like_key") for j in sc["jobs"]):
            stats["probe.job_context_with_protocol_like_key"] = 1
        if any(j.get("slow") for j in sc["jobs"]):
            stats["probe.slow_job"] = 1
            stats["fault.slow_job"] = sum(1 for j in sc["jobs"] if j.get("slow"))
        if sched.probes.get("worker_stopped_mid_batch"):
            stats["probe.worker_stopped_and_replaced_mid_batch"] = 1
            stats["fault.worker_stop"] = 1
        if len(sc["workers"]) > 1:
            stats["probe.multi_worker"] = 1
        if any(x["start_delay"] for x in sc["workers"]):
            stats["probe.late_worker"] = 1
            stats["fault.late_worker"] = 1
        if njobs >= 10:
            stats["probe.batch_ge_10"] = 1
        if any(j.get("no_future") for j in sc["jobs"]) and any(not j.get("no_future") for j in sc["jobs"]):
            stats["probe.fire_and_forget_job_mixed_in"] = 1
        if sum(1 for j in sc["jobs"] if j.get("fail")) >= 2:
            stats["probe.two_failing_jobs"] = 1
        stats["jobs"] = njobs
        stats["steps"] = sched.steps
        stats["switches"] = len(sched.switches)
        stats["sim_seconds"] = sched.now
        sd = sched.switch_digest()
        seen, uniq = set(), []
        for v in viols:
            kk = (v["clause"], v["key"])
            if kk not in seen:
                seen.add(kk)
                uniq.append(v)
        nonfail = sum(1 for j in sc["jobs"] if not j.get("fail"))
        res = {"violations": uniq, "stats": stats, "digests": [sd], "nontrivial": [sd] if picked >= nonfail and outcome == "completed" else [],
               "digest": sched.digest(),
               "sample": {"jobs": [{"nodes": j["nodes"], "gap": j["gap"], "fail": j.get("fail")} for j in sc["jobs"][:3]],
                          "njobs": njobs, "workers": sc["workers"], "strategy": sc["strategy"], "virtual_seconds": round(sched.now, 3)}}
        if uniq and sc.get("choices") is None:
            res["scenario_patch"] = {"choices": list(sched.choices)}
        return res
    finally:
        w.close()


def shrink_candidates(sc: dict):
    # structural candidates change the workload, so they fall back to the seeded stream (choices=None) ...
    for cand in _structural_candidates(sc):
        yield dict(cand, choices=None)
    # ... then the recorded choice stream of the (smaller) failing run is minimised: fewer pre-emptions
    if isinstance(sc.get("choices"), list):
        for ch in threads.choice_shrink_candidates(sc["choices"]):
            yield dict(sc, choices=ch)


def _structural_candidates(sc: dict):
    jobs = sc["jobs"]
    if len(jobs) > 1:
        half = len(jobs) // 2
        if half >= 1 and len(jobs) > 3:
            yield dict(sc, jobs=jobs[:half])
            yield dict(sc, jobs=jobs[half:])
        for i in reversed(range(len(jobs))):
            yield dict(sc, jobs=jobs[:i] + jobs[i + 1:])
    if len(sc["workers"]) > 1:
        yield dict(sc, workers=sc["workers"][:1])
    if any(x["start_delay"] for x in sc["workers"]):
        yield dict(sc, workers=[dict(x, start_delay=0.0) for x in sc["workers"]])
    if any(j["gap"] for j in jobs):
        yield dict(sc, jobs=[dict(j, gap=0.0) for j in jobs])
    if sc["strategy"] != {"kind": "random", "p": 0.02}:
        yield dict(sc, strategy={"kind": "random", "p": 0.02})
