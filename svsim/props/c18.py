"""C18 - repeated execution leaves no per-run residue in the process.

Long histories inside one forked interpreter: one generated pipeline repeated N=450 times after a
warm-up run in each of the four repeat modes (reused Pipeline object, fresh Pipeline objects, a
run-space launch through cli.main, a queue worker under the thread engine). Registry sizes, other
module-level containers and the gc population are sampled at the start of runs 51/151/451. Growth
is attributed by reachability to named process-level roots, so a known finding covers only growth
hanging off its own root.
"""
from __future__ import annotations

import collections
import copy
import gc
import hashlib
import json
import random

from .. import gen, harness, oracles, threads
from .. import lib as svlib
from .. import world as svworld
from ..world import SimWorld

EVAL_COUNTER = "histories"
EVAL_UNIT = "one (pipeline, repeat mode) history of 452 runs"
LEVEL = "exploration"
RULE = ("seeded pipelines (sweeps, slicers, shorthands, sinks included) x four repeat modes, N=450 runs after one warm-up, "
        "samples after 50/150/450 runs of: sum of component-registry list lengths, sizes of every other module-level container "
        "found, len(gc.get_objects()) after gc.collect(). Oracle: registries equal at the three samples; gc slope < 0.5 object/"
        "run on the 150->450 interval (both slopes reported); growth attributed to named roots by gc.get_referents BFS. The queue-worker mode runs in a seeded "
        "quarter of the evaluations; a fifth mode drives cli.main once per run; the container clause scans every module-level and class-level container of every loaded semantiva module; fresh histories may share one orchestrator or load the configuration from a rewritten YAML path; queue histories may be fire-and-forget; a candidate for unattributed growth is confirmed on a 1350-run history. distinct_nontrivial = distinct (pipeline digest, mode) histories completed with all samples.")
REAL_COMPONENTS = ["Pipeline / LocalSemantivaOrchestrator / SequentialSemantivaExecutor (default wiring, no recording seam)",
                   "node factory and all class-generating factories", "component metaclass registry", "cli.main run-space loop",
                   "QueueSemantivaOrchestrator + worker_loop + InMemorySemantivaTransport (mode 4)"]
STUB_COMPONENTS = ["leaf processors (with a counting tick, nothing recorded per run)", "thread scheduler (mode 4 only)", "SimClock/SimUUID"]
ASSUMPTIONS = ["gc object increments are reproducible to within a few objects per 100 runs inside a forked child (a no-op control history calibrates the harness's own "
               "footprint to 0)", "proportional growth is what is forbidden; a constant offset is allowed"]
REQUIRED_PROBES = ["mode.reuse", "mode.fresh", "mode.launch", "mode.queue", "mode.launches", "queue_job_profile_with_unimportable_module", "pipeline_with_sweep", "pipeline_with_shorthand",
                   "failing_configuration_repeated", "traced_repeats", "queue_fire_and_forget_jobs", "cli_transport_selected_in_config", "fresh_pipelines_sharing_one_orchestrator", "fresh_pipelines_loaded_from_rewritten_yaml_path"]
CONFIG = {
    "quick": {"runs": 64, "budget_s": 240, "timeout_s": 400},
    "thorough": {"runs": 1600, "budget_s": 1700, "timeout_s": 600},
    "shrink_s": 90.0,
}
def NONREPRO_IS_NOISE(v: dict) -> bool:
    """Growth of the total gc population that no named root explains is a measurement (dead weak references, allocator and
    collector state); the runner measures the same history a second time in a fresh process before reporting it."""
    return v.get("clause") == "gc_growth" and str(v.get("key", "")).startswith("unattributed/")


SAMPLE_AT = (50, 150, 450)
CONFIRM_AT = 1350      # a candidate for growth that no named root explains is confirmed (or dismissed) on a three times longer history
SLOPE = 0.5


def _digest(obj) -> str:
    return hashlib.sha256(json.dumps(obj, sort_keys=True, default=repr).encode()).hexdigest()[:12]


def generate(rng: random.Random, tier: str, seed: int) -> dict:
    for _ in range(40):
        base = gen.gen_pipeline(rng, max_nodes=5, allow_file_sink=False)
        if base["init_data"] is None:
            break
    if base.get("truth") and base["truth"][-1]["out"] == "float" and rng.random() < 0.12:
        # a context value that the trace driver can only write through its fallback path (mapping with keys of mixed types,
        # consumed as a parameter by a later node)
        cand = dict(base, nodes=base["nodes"] + [{"processor": "SvCtxWriterMixedKeys"}, {"processor": "rename:mk:mk_moved"}])
        t = gen.recompute_truth(cand)
        if t is not None and not any(x["missing"] or not x["type_ok"] for x in t):
            base = dict(cand, truth=t)
    modes = ["reuse", "fresh", "launch"]
    if rng.random() < 0.25:
        modes.append("queue")
    if rng.random() < 0.25:
        modes.append("launches")      # the CLI driven in-process once per run (a new stdout object per launch)
    sc = {"base": {k: base[k] for k in ("nodes", "context", "init_data")}, "modes": modes, "n": 450,
          "sched_seed": rng.getrandbits(48), "failing": None, "traced": rng.random() < 0.5,
          "launches_run_space": rng.random() < 0.6,     # mode `launches`: each launch is a one-run run-space launch, directory trace output
          "profile_paths": rng.random() < 0.35,        # queue mode: the job's registry profile names search paths (the sandbox directory)
          "bad_profile_module": rng.random() < 0.35,   # queue mode: the job's registry profile names a module that cannot be imported
          "fire_forget": rng.random() < 0.5,           # queue mode: jobs enqueued without a Future (nobody awaits their result)
          "cli_transport": rng.random() < 0.5,
          "shared_orchestrator": rng.random() < 0.4,
          "yaml_path": rng.random() < 0.3}             # fresh mode: the configuration is (re)written to a YAML file and loaded by path before every run   # fresh mode: every new Pipeline is given the same orchestrator instance         # launch / launches: the configuration selects its transport explicitly
    if "launches" in modes:
        # repeated in-process launches are where per-launch bookkeeping (emitters, drivers, handlers) would pile up: most of
        # these histories are traced run-space launches
        sc["traced"] = rng.random() < 0.75
        sc["launches_run_space"] = rng.random() < 0.75
    if rng.random() < 0.3:
        # the repeated configuration FAILS at a node after the first one (every repetition raises / fails its Future)
        fs = [f for f in gen.applicable_failures(base) if f[0] in ("unresolvable", "type_gate", "undeclared_op", "undeclared_ctx") and f[1] >= 1]
        if rng.random() < 0.3:
            # an empty `processor:` after at least one valid node: every run fails while nodes are being constructed
            sc["base"]["nodes"] = sc["base"]["nodes"] + [{"processor": None}]
            sc["failing"] = ["processor_none", len(sc["base"]["nodes"]) - 1]
            modes = [m for m in modes if m != "queue"]
        elif fs:
            kind, k = rng.choice(fs)
            f = gen.apply_failure(base, kind, k)
            sc["base"]["nodes"] = f["nodes"]
            sc["failing"] = [kind, k]
        if sc["failing"]:
            want_queue = sc["failing"][0] != "processor_none" and "queue" not in modes and rng.random() < 0.5
            sc["modes"] = [m for m in modes if m not in ("launch", "launches")] + (["queue"] if want_queue else [])
    return sc


_CONT = (dict, list, set, collections.deque)


def _containers() -> dict[str, int]:
    import logging
    from semantiva.core.semantiva_component import get_component_registry
    out = {}
    reg = get_component_registry()
    for k in sorted(reg):
        out[f"component_registry[{k}]"] = len(reg[k])
    # every module-level container, and every container-valued class attribute, of every loaded semantiva module - discovered
    # by type (no list of names to keep in step with the code). Size = entries, plus the entries of nested containers one
    # level down (a dict of lists grows in its lists).
    import sys as _sys

    def size(v):
        n = len(v)
        for x in (v.values() if isinstance(v, dict) else v):
            if isinstance(x, _CONT):
                n += len(x)
        return n

    from semantiva.core import semantiva_component as _scm
    weak_registry = getattr(_scm, "_COMPONENT_REGISTRY", None)      # sampled above through its public accessor (live classes only)
    for mname in sorted(_sys.modules):
        mod = _sys.modules.get(mname)
        if mod is None or not (mname == "semantiva" or mname.startswith("semantiva.")):
            continue
        for attr, val in sorted(vars(mod).items(), key=lambda kv: kv[0]):
            if attr.startswith("__"):
                continue
            try:
                if val is weak_registry:
                    continue
                if isinstance(val, _CONT):
                    out[f"{mname}.{attr}"] = size(val)
                elif isinstance(val, type) and getattr(val, "__module__", None) == mname:
                    for a2, v2 in sorted(vars(val).items(), key=lambda kv: kv[0]):
                        if not a2.startswith("__") and isinstance(v2, _CONT):
                            out[f"{mname}.{val.__name__}.{a2}"] = size(v2)
            except Exception:  # noqa: BLE001 - exotic containers (weak dictionaries changing size) are skipped, never fatal
                continue
    # interpreter-wide registries the framework may write to
    out["sys.path"] = len(_sys.path)
    out["sys.meta_path"] = len(_sys.meta_path)
    out["sys.path_hooks"] = len(_sys.path_hooks)
    import atexit as _atexit
    out["atexit.callbacks"] = _atexit._ncallbacks() if hasattr(_atexit, "_ncallbacks") else 0
    import warnings as _warnings
    out["warnings.filters"] = len(_warnings.filters)
    out["logging.loggerDict"] = len(logging.root.manager.loggerDict)
    out["logging.handlers"] = sum(len(getattr(lg, "handlers", [])) for lg in list(logging.root.manager.loggerDict.values()) + [logging.root])
    return out


class Sampler:
    """Counts run starts through the leaf tick; samples at the start of runs 51/151/451 (= after 50/150/450 runs)."""

    def __init__(self, first_leaf: str, warmup: int = 1, roots_fn=None):
        self.roots_fn = roots_fn
        self.first_leaf = first_leaf
        self.count = 0
        self.warmup = warmup
        self.samples: list[dict] = []
        self.ids1: set | None = None
        self.want = {warmup + n + 1: n for n in SAMPLE_AT}
        self.can_extend = False     # modes whose history length is decided run by run (all but the single CLI launch)

    by_harness = False      # reuse / fresh / launches: the harness loop itself marks run starts (works for runs that
                            # fail before any leaf is invoked); launch / queue: the first leaf marks them

    def tick_run(self) -> None:
        self._advance()

    def tick(self, name: str) -> None:
        if self.by_harness or name != self.first_leaf:
            return
        self._advance()

    def _advance(self) -> None:
        self.count += 1
        n = self.want.get(self.count)
        if n is not None:
            self.sample(n)
            if n == SAMPLE_AT[-1] and self.can_extend and self._candidate_without_root():
                self.want[self.warmup + CONFIRM_AT + 1] = CONFIRM_AT

    def more(self) -> bool:
        """True while the history has not reached its last sample point."""
        return self.count < max(self.want)

    def _candidate_without_root(self) -> bool:
        """Exactly the condition under which the verdict would report `unattributed` growth from the first three samples."""
        s2, s3 = self.samples[-2], self.samples[-1]
        slope_b = (s3["gc"] - s2["gc"]) / 300.0
        if slope_b < SLOPE:
            return False
        a2, a3 = s2.get("attributed", {}), s3.get("attributed", {})
        flagged = any((a3.get(r, 0) - a2.get(r, 0)) / 300.0 >= SLOPE for r in set(a2) | set(a3))
        us = (s3.get("unattributed", 0) - s2.get("unattributed", 0)) / 300.0
        return us >= SLOPE or (not flagged and slope_b >= 2 * SLOPE)

    def sample(self, n: int) -> None:
        gc.collect()
        objs = gc.get_objects()
        s = {"after_runs": n, "gc": len(objs), "containers": _containers()}
        first = self.ids1 is None
        if first:
            self.ids1 = set(map(id, objs))
        del objs
        if not first and self.roots_fn is not None:
            roots = self.roots_fn()
            counts, un, prof = _attribute(self.ids1, roots, exclude=[self.samples, self, roots, s])
            s["attributed"] = counts
            s["unattributed"] = un
            s["unattributed_types"] = prof
        self.samples.append(s)


def _first_leaf(nodes: list[dict]) -> str:
    return nodes[0]["processor"]


import types as _types
_NO_WALK = (type, _types.ModuleType, _types.FunctionType, _types.BuiltinFunctionType, _types.MethodType, _types.FrameType,
            _types.CodeType, str, int, float, bytes)


def _attribute(ids1: set, roots: dict[str, object], exclude: list) -> tuple[dict[str, int], int, list]:
    gc.collect()
    objs = gc.get_objects()
    skip = {id(x) for x in exclude} | {id(objs), id(ids1)}
    new = {id(o): o for o in objs if id(o) not in ids1 and id(o) not in skip}
    label: dict[int, str] = {}
    counts: dict[str, int] = {}
    for name, root in roots.items():
        # unlimited through new objects; through pre-existing objects only a few hops away from the root
        stack = [(root, 0)]
        seen_old = set()
        while stack:
            o, depth = stack.pop()
            for r in gc.get_referents(o):
                i = id(r)
                if i in new:
                    if i not in label:
                        label[i] = name
                        counts[name] = counts.get(name, 0) + 1
                        stack.append((r, depth))
                elif depth < 7 and i not in seen_old and not isinstance(r, _NO_WALK):
                    seen_old.add(i)
                    stack.append((r, depth + 1))
    # reverse closure (3 passes): a new tuple/list/dict all of whose gc-tracked referents are already attributed to root X
    # (e.g. the temporary `list(queues.items())` held by a parked subscription frame) belongs to X as well
    # "bridge" tuples: new tuples whose gc-tracked referents are all pre-existing objects (e.g. the (name, (deque, lock))
    # items of a temporary `list(queues.items())` for channels that existed before the first sample). They carry no
    # new state; their number depends on how many parked frames hold such a list at the sampling instant.
    bridge = set()
    for i, o in new.items():
        if type(o) is tuple and i not in label:
            if all((not gc.is_tracked(r)) or id(r) not in new for r in gc.get_referents(o)):
                bridge.add(i)
    for _ in range(3):
        changed = False
        for i, o in new.items():
            if i in label or not isinstance(o, (tuple, list, dict)):
                continue
            labs = set()
            ok = True
            for r in gc.get_referents(o):
                if not gc.is_tracked(r) or id(r) not in new or id(r) in bridge:
                    continue   # atoms, pre-existing objects and bridge tuples are neutral
                lab = label.get(id(r))
                if lab is None:
                    ok = False
                    break
                labs.add(lab)
            if ok and len(labs) == 1:
                name = labs.pop()
                label[i] = name
                counts[name] = counts.get(name, 0) + 1
                changed = True
        if not changed:
            break
    un = [o for i, o in new.items() if i not in label and i not in bridge]
    prof = collections.Counter(type(o).__name__ for o in un).most_common(6)
    return counts, len(un), prof


def _run_mode(sc: dict, mode: str, w, stats: dict) -> list[dict]:
    from semantiva import Payload, Pipeline
    from semantiva.context_processors import ContextType
    from semantiva.core.semantiva_component import get_component_registry
    from semantiva.data_types import NoDataType
    base = sc["base"]
    nodes = base["nodes"]
    N = sc["n"]
    total = 1 + N + 1          # warm-up + N + one more so that the last sample point (start of run N+2) is reached
    from semantiva.core import semantiva_component as _sc
    from semantiva.execution.transport.in_memory import InMemorySemantivaTransport
    roots: dict[str, object] = {"component_registry": getattr(_sc, "_COMPONENT_REGISTRY", None) or get_component_registry()}

    def roots_fn():
        r = dict(roots)
        if mode == "launch":
            # the CLI's Pipeline lives in cli._run's frame; its transport is found among the live objects
            r["cli_pipeline.transport"] = [o for o in gc.get_objects() if isinstance(o, InMemorySemantivaTransport)]
        if mode == "launches":
            # launches are over at a sample point: any transport alive now outlived the launch that used it
            r["transport_surviving_a_launch"] = [o for o in gc.get_objects() if isinstance(o, InMemorySemantivaTransport)]
        if "queue_transport" in r:
            # queued messages (job descriptions / status reports nobody has consumed) are attributed apart from the channel
            # table itself (known finding F10c is about the per-job CHANNELS only); listed first: first label wins
            msgs = _queued_messages(r["queue_transport"])
            r = {"queue_transport.messages": msgs, **r}
        return r

    sampler = Sampler(_first_leaf(nodes), roots_fn=roots_fn)
    lg = harness.quiet_logger()
    svlib.TICK = sampler.tick
    svworld.WORLD = None        # nothing is recorded per run: the harness cannot be the source of growth
    try:
        failing = bool(sc.get("failing"))

        sampler.by_harness = mode in ("reuse", "fresh", "launches") or (mode == "queue" and bool(sc.get("fire_forget")))
        # the single CLI launch has a fixed plan; in queue mode every job is slower than the one before (known finding F10c),
        # so a three times longer history is not affordable there: both keep the one-interval rule
        sampler.can_extend = mode in ("reuse", "fresh", "launches")

        def one(p, tick=True):
            if tick:
                sampler.tick_run()
            try:
                p.process(Payload(NoDataType(), ContextType(copy.deepcopy(base["context"]))))
                if failing:
                    raise RuntimeError("failing configuration returned")
            except RuntimeError:
                raise
            except Exception:
                if not failing:
                    raise

        traced = bool(sc.get("traced"))

        def driver(tag):
            if not traced:
                return None
            svworld.WORLD = None
            from semantiva.trace.drivers.jsonl import JsonlTraceDriver
            import os as _os
            return JsonlTraceDriver(_os.path.join(w.sandbox, f"c18_{tag}.ser.jsonl"), detail="hash")

        if mode == "reuse":
            p = Pipeline(copy.deepcopy(nodes), logger=lg, trace=driver("reuse"))
            roots["reused_pipeline.transport"] = p.transport
            roots["reused_pipeline"] = p
            while sampler.more():
                one(p)
        elif mode == "fresh":
            shared = None
            if sc.get("shared_orchestrator"):
                from semantiva.execution.orchestrator.orchestrator import LocalSemantivaOrchestrator
                shared = LocalSemantivaOrchestrator()
                roots["shared_orchestrator"] = shared
            by_path = bool(sc.get("yaml_path")) and not failing
            k_run = 0
            while sampler.more():
                sampler.tick_run()
                run_nodes = copy.deepcopy(nodes)
                if by_path:
                    # a job generator / deploy step rewrites the same file (same content, new mtime) before every run
                    import os as _os2
                    import yaml as _yaml2
                    from semantiva.configurations import load_pipeline_from_yaml
                    path = _os2.path.join(w.sandbox, "c18_job.yaml")
                    with open(path, "w") as fh:
                        fh.write(_yaml2.safe_dump({"extensions": ["svsim.lib"], "pipeline": {"nodes": nodes}}, sort_keys=False))
                    k_run += 1
                    _os2.utime(path, (1_600_000_000 + k_run, 1_600_000_000 + k_run))
                    run_nodes = list(load_pipeline_from_yaml(path))
                try:
                    p = Pipeline(run_nodes, logger=lg, trace=driver("fresh"), **({"orchestrator": shared} if shared is not None else {}))
                except Exception:
                    if not failing:
                        raise
                    continue
                one(p, tick=False)
            p = None
        elif mode == "launch":
            svworld.WORLD = w   # cwd/sandbox only; leaves record nothing because w.quiet is set
            rs = {"max_runs": 1000, "blocks": [{"mode": "by_position", "context": {"rs_idx": [float(i) for i in range(total)]}}]}
            harness.write_cli_config(base, "launch.yaml", run_space=rs, executor=False, extra=_cli_extra(sc),
                                     trace=harness.trace_cfg("file", "hash", "c18_launch") if traced else None)
            argv = ["run", "launch.yaml", "-q"]
            for k, v in base["context"].items():
                argv += ["--context", f"{k}={harness.cli_value(v)}"]
            r = harness.run_cli(argv)
            if r["code"] != 0:
                raise RuntimeError(f"launch failed: {r['code']} {r['stderr'][:300]}")
        elif mode == "launches":
            svworld.WORLD = w
            one_rs = {"blocks": [{"mode": "by_position", "context": {"rs_one": [1.0]}}]} if sc.get("launches_run_space") else None
            harness.write_cli_config(base, "one.yaml", executor=False, run_space=one_rs, extra=_cli_extra(sc),
                                     trace=harness.trace_cfg("dir" if sc.get("launches_run_space") else "file", "hash", "c18_launches") if traced else None)
            argv = ["run", "one.yaml", "-q"]
            for k, v in base["context"].items():
                argv += ["--context", f"{k}={harness.cli_value(v)}"]
            while sampler.more():
                sampler.tick_run()
                r = harness.run_cli(argv)         # redirect_stdout(StringIO()) inside: a fresh stdout object per launch
                if (r["code"] != 0) != failing:
                    raise RuntimeError(f"launch outcome unexpected: {r['code']} {r['stderr'][:300]}")
        elif mode == "queue":
            _queue_mode(sc, total, roots, lg, sampler)
        if len(sampler.samples) not in (3, 4):
            raise RuntimeError(f"mode {mode}: only {len(sampler.samples)} samples (count={sampler.count})")
    finally:
        svlib.TICK = None
        svworld.WORLD = w
    s1, s2, s3 = sampler.samples[:3]
    s4 = sampler.samples[3] if len(sampler.samples) == 4 else None
    if s4 is not None:
        stats["probe.candidate_growth_confirmed_on_longer_history"] = stats.get("probe.candidate_growth_confirmed_on_longer_history", 0) + 1
    out = []
    # registries / containers equal at 50, 150 and 450
    grown_reg = [k for k in s1["containers"] if k.startswith("component_registry[") and not (s1["containers"][k] == s2["containers"].get(k) == s3["containers"].get(k))]
    new_cats = [k for k in s3["containers"] if k.startswith("component_registry[") and k not in s1["containers"]]
    if grown_reg or new_cats:
        tot = [sum(v for k, v in s["containers"].items() if k.startswith("component_registry[")) for s in (s1, s2, s3)]
        out.append(oracles.V("registry", f"component_registry/{mode}", f"registered component classes after 50/150/450 runs: {tot} "
                             f"(+{(tot[2] - tot[1]) / 300:.2f} per run); categories growing: {grown_reg + new_cats}"))
    for k in s1["containers"]:
        if k.startswith("component_registry["):
            continue
        if not (s1["containers"][k] == s2["containers"].get(k) == s3["containers"].get(k)):
            out.append(oracles.V("container", f"{k}/{mode}", f"{k}: {s1['containers'][k]} / {s2['containers'].get(k)} / {s3['containers'].get(k)} after 50/150/450 runs"))
    slope_a = (s2["gc"] - s1["gc"]) / 100.0
    slope_b = (s3["gc"] - s2["gc"]) / 300.0
    stats[f"slope_{mode}"] = slope_b
    # Decisive is the long interval (150 -> 450): proportional growth of >= 0.5 object/run must show there, whereas a
    # one-off allocation shortly after warm-up (a cache filling, an amortised prune) is not growth with N.
    if slope_b >= SLOPE:
        flagged = False
        a2, a3 = s2.get("attributed", {}), s3.get("attributed", {})
        for root in sorted(set(a2) | set(a3)):
            rs = (a3.get(root, 0) - a2.get(root, 0)) / 300.0
            if rs >= SLOPE:
                flagged = True
                out.append(oracles.V("gc_growth", f"{root}/{mode}", f"gc population {s1['gc']}/{s2['gc']}/{s3['gc']} after 50/150/450 runs "
                                     f"(slopes {slope_a:.2f}, {slope_b:.2f} objects/run); {rs:.2f} objects/run reachable from root {root}"))
        us = (s3.get("unattributed", 0) - s2.get("unattributed", 0)) / 300.0
        # total growth that no single root explains is still growth: report it as unattributed - if it is growth WITH N:
        # where the history could be extended, the 450 -> 1350 interval has to show it as well (a bounded sawtooth, e.g. dead
        # weak references waiting for an amortised prune, does not)
        cand = us >= SLOPE or (not flagged and slope_b >= 2 * SLOPE)
        if cand and s4 is not None:
            span = float(CONFIRM_AT - SAMPLE_AT[-1])
            us2 = (s4.get("unattributed", 0) - s3.get("unattributed", 0)) / span
            slope_c = (s4["gc"] - s3["gc"]) / span
            stats[f"slope_{mode}_confirm"] = slope_c
            cand = us2 >= SLOPE or (not flagged and slope_c >= SLOPE)
        if cand:
            out.append(oracles.V("gc_growth", f"unattributed/{mode}", f"gc population {s1['gc']}/{s2['gc']}/{s3['gc']}" + (f"/{s4['gc']}" if s4 else "") +
                                 f" (slopes {slope_a:.2f}, {slope_b:.2f}); "
                                 f"{us:.2f} objects/run reachable from no named root; types {s3.get('unattributed_types')}"))
    return out


def _queued_messages(tr) -> list:
    """Message objects still held by a transport, found by reachability (no knowledge of its internal layout)."""
    from semantiva.execution.transport.base import Message
    out, seen, stack = [], {id(tr)}, [(tr, 0)]
    while stack:
        o, d = stack.pop()
        for r in gc.get_referents(o):
            if id(r) in seen or isinstance(r, _NO_WALK):
                continue
            seen.add(id(r))
            if isinstance(r, Message):
                out.append(r)
            elif d < 5:
                stack.append((r, d + 1))
    return out


def _observed_transport(im):
    """The real in-memory transport, observed through its public API only: counts publishes (and status reports) and
    deliveries, so that the client can tell quiescence without looking inside."""

    class _CountingSub:
        def __init__(self, inner, owner):
            self._inner, self._owner = inner, owner

        def __iter__(self):
            for m in self._inner:
                self._owner.n_delivered += 1
                yield m

        def close(self):
            return self._inner.close()

        def __getattr__(self, name):
            return getattr(self._inner, name)

    class ObservedTransport(im.InMemorySemantivaTransport):
        def __init__(self):
            super().__init__()
            self.n_published = 0
            self.n_status_published = 0
            self.n_delivered = 0

        def publish(self, channel, *a, **k):
            self.n_published += 1
            if str(channel).endswith(".status"):
                self.n_status_published += 1
            return super().publish(channel, *a, **k)

        def subscribe(self, channel, *a, **k):
            return _CountingSub(super().subscribe(channel, *a, **k), self)

    return ObservedTransport()


def _cli_extra(sc: dict):
    return {"execution": {"transport": "in_memory"}} if sc.get("cli_transport") else None


def _queue_mode(sc: dict, total: int, roots: dict, lg, sampler=None) -> None:
    from semantiva.context_processors import ContextType
    from semantiva.execution.executor.executor import SequentialSemantivaExecutor
    from semantiva.execution.job_queue import queue_orchestrator as qo
    from semantiva.execution.job_queue import worker as wk
    from semantiva.execution.transport import in_memory as im
    base = sc["base"]
    sched = threads.Scheduler(sc["sched_seed"], targets=("execution/job_queue/queue_orchestrator.py", "execution/job_queue/worker.py"),
                              strategy={"kind": "random", "p": 0.05}, max_steps=20_000_000)
    sched.log = lambda *a: None            # the scheduler records nothing per job either
    sched.switches = _NullList()
    sched.choices = _NullList()
    with threads.Installed(sched, [im, qo, wk]):
        tr = _observed_transport(im)
        roots["queue_transport"] = tr
        stop = threads.SimEvent()
        orch = qo.QueueSemantivaOrchestrator(tr, stop_event=stop, logger=lg)
        roots["queue_orchestrator"] = orch
        state = {"failed": None}
        profile = None
        if sc.get("bad_profile_module"):
            from semantiva.registry import RegistryProfile
            profile = RegistryProfile(modules=["svsim.lib", "svsim_optional_plugin_that_is_not_installed"])
        if sc.get("profile_paths"):
            from semantiva.registry import RegistryProfile
            import os as _os
            profile = RegistryProfile(modules=list(profile.modules) if profile else ["svsim.lib", "semantiva.examples.test_utils"],
                                      paths=[_os.getcwd(), _os.path.join(_os.getcwd(), "plugins")])

        def client_fire_forget():
            # Nobody awaits a result. The client itself marks run starts (sample points are quiescent: job i has reported and
            # the master has collected the report, or a bounded wait has expired).
            i = -1
            while sampler.more():
                i += 1
                sampler.tick_run()
                orch.enqueue(copy.deepcopy(base["nodes"]), context=ContextType(copy.deepcopy(base["context"])), registry_profile=profile)
                waited = 0
                while tr.n_status_published < i + 1:
                    threads.sim_sleep(0.05)
                    waited += 1
                    if waited > 2000:
                        state["failed"] = f"job {i} never reported"
                        stop.set()
                        return
                # quiescence: the master has collected every report (bounded wait - pacing, not an oracle: if reports are never
                # collected the history goes on and the residue is what the samples measure)
                for _ in range(100):
                    threads.sim_sleep(0.05)
                    if orch.job_queue.empty() and tr.n_delivered >= tr.n_published:
                        break
            stop.set()

        def client():
            i = -1
            while sampler.more():
                i += 1
                fut = orch.enqueue(copy.deepcopy(base["nodes"]), context=ContextType(copy.deepcopy(base["context"])), return_future=True,
                                   registry_profile=profile)
                waited = 0
                while not fut.done():
                    threads.sim_sleep(0.05)
                    waited += 1
                    if waited > 2000:
                        state["failed"] = f"job {i} never completed"
                        stop.set()
                        return
                if (fut.exception() is not None) != bool(sc.get("failing")):
                    state["failed"] = f"job {i}: unexpected outcome {fut.exception()!r}"
                    stop.set()
                    return
                del fut
            stop.set()

        sched.spawn("master", orch.run_forever)
        sched.spawn("worker0", lambda: wk.worker_loop(0, tr, SequentialSemantivaExecutor(), stop, logger=lg, poll_interval=0.05))
        sched.spawn("client", client_fire_forget if sc.get("fire_forget") and sampler is not None else client)
        outcome = sched.run(wall_timeout=300.0)
        if outcome != "completed" or state["failed"]:
            raise RuntimeError(f"queue mode: {outcome} {state['failed']}")


class _NullList(list):
    def append(self, x):  # noqa: D401
        pass


def control(w) -> int:
    """No-op history: the harness' own footprint must be zero objects per 'run'."""
    sampler = Sampler("noop", warmup=1)
    for _ in range(452):
        sampler.tick("noop")
    return sampler.samples[2]["gc"] - sampler.samples[0]["gc"]


def execute(sc: dict, seed: int) -> dict:
    stats: dict = {}
    viols: list[dict] = []
    w = SimWorld(seed, lane="c18")
    w.quiet = True
    nontrivial = []
    bd = _digest(sc["base"])
    try:
        # sanity: base must run
        p = harness.make_pipeline(sc["base"]["nodes"])
        oc = harness.outcome_of(lambda: p.process(harness.make_payload(sc["base"])))
        if oc["ok"] == bool(sc.get("failing")):
            stats["discarded_base_mismatch"] = 1
            return {"violations": [], "stats": stats, "digests": [bd], "nontrivial": []}
        del p, oc
        w.exec_log.clear(); w.events.clear(); w.invocations.clear(); w.run_inputs.clear()
        c = control(w)
        stats["control_growth_objects"] = c
        if abs(c) > 20:
            raise RuntimeError(f"harness control history grows by {c} objects")
        for mode in sc["modes"]:
            vs = _run_mode(sc, mode, w, stats)
            viols.extend(vs)
            stats[f"probe.mode.{mode}"] = 1
            stats["histories"] = stats.get("histories", 0) + 1
            stats["runs_executed"] = stats.get("runs_executed", 0) + sc["n"] + 2
            nontrivial.append(f"{bd}/{mode}")
        if sc.get("traced"):
            stats["probe.traced_repeats"] = 1
        if sc.get("fire_forget") and "queue" in sc["modes"]:
            stats["probe.queue_fire_and_forget_jobs"] = 1
        if sc.get("cli_transport") and ("launch" in sc["modes"] or "launches" in sc["modes"]):
            stats["probe.cli_transport_selected_in_config"] = 1
        if sc.get("yaml_path") and "fresh" in sc["modes"] and not sc.get("failing"):
            stats["probe.fresh_pipelines_loaded_from_rewritten_yaml_path"] = 1
        if sc.get("shared_orchestrator") and "fresh" in sc["modes"]:
            stats["probe.fresh_pipelines_sharing_one_orchestrator"] = 1
        if sc.get("profile_paths") and "queue" in sc["modes"]:
            stats["probe.queue_job_profile_with_search_paths"] = 1
        if sc.get("bad_profile_module") and "queue" in sc["modes"]:
            stats["probe.queue_job_profile_with_unimportable_module"] = 1
            stats["fault.module_import_error"] = 1
        if sc.get("failing"):
            stats["probe.failing_configuration_repeated"] = 1
            stats[f"fault.{sc['failing'][0]}"] = 1
        if any("derive" in n for n in sc["base"]["nodes"]):
            stats["probe.pipeline_with_sweep"] = 1
        if any(":" in (n["processor"] or "") for n in sc["base"]["nodes"]):
            stats["probe.pipeline_with_shorthand"] = 1
        stats["sim_seconds"] = 0.0265 * w.clock.reads
        seen, uniq = set(), []
        for v in viols:
            kk = (v["clause"], v["key"])
            if kk not in seen:
                seen.add(kk)
                uniq.append(v)
        sample = {"nodes": sc["base"]["nodes"], "context": sc["base"]["context"], "modes": sc["modes"], "n": sc["n"], "failing": sc.get("failing"),
                  "slopes": {k: round(v, 3) for k, v in stats.items() if k.startswith("slope_")}}
        return {"violations": uniq, "stats": {k: v for k, v in stats.items() if not k.startswith("slope_")}, "digests": [bd],
                "nontrivial": nontrivial, "sample": sample, "digest": _digest([sc["modes"], sorted(v["key"] for v in uniq)])}  # C18 measures object counts, not an event log
    finally:
        w.close()


def shrink_candidates(sc: dict):
    if len(sc["modes"]) > 1:
        for m in sc["modes"]:
            yield dict(sc, modes=[m])
    base = sc["base"]
    n = len(base["nodes"])
    for i in reversed(range(1, n)):
        b = copy.deepcopy(base)
        del b["nodes"][i]
        t = gen.recompute_truth(b)
        if t is None or any(x["missing"] or not x["type_ok"] for x in t):
            continue
        yield dict(sc, base=b)
