"""C17 - the CLI never executes a configuration its pre-flight checks reject.

In-process `semantiva run` inside the world; the leaf log, the executor log and the sandbox file
tree are the observers. Each evaluation derives ~6 cases from one generated base pipeline:
configurations valid or invalid by construction in ONE documented way, CLI flag combinations,
context keys supplied / missing / supplied by a run space, and multi-run launches with a run
failing at a seeded index.
"""
from __future__ import annotations

import copy
import hashlib
import json
import os
import random

from .. import gen, harness, oracles
from ..world import SimWorld

EVAL_COUNTER = "cli_invocations"
EVAL_UNIT = "one in-process `semantiva run` invocation (one case)"
LEVEL = "exploration"
RULE = ("per seeded base pipeline, ~6 cases sampled from: valid run; valid + {--validate, --dry-run, --run-space-dry-run}; invalid "
        "config {unknown processor, unknown parameter, type mismatch, probe without context_key, key deleted then required, --set "
        "to an unknown processor / unknown override key}; required context key not supplied {never produced, produced only by a "
        "later node}; keys supplied by --context / by run-space; malformed run-space {unequal lengths, duplicate keys, bad mode, "
        "bad combine}; run-space over max_runs (block and --run-space-max-runs); missing pipeline / run-space source file; "
        "argparse usage error; multi-run launch with a failing run at index i. distinct_nontrivial = distinct (base digest, case "
        "kind, flags) cases executed."
        " Further seeded dimensions: cap 0 / product-1, -v/-q/--verbose, subclass type gate, duplicate keys via sources/rename, --run-space-file with flags, empty side of a by_position block, rename collisions in both column orders, failing runs ending with SimAbort / SystemExit, 1.2 % subprocess cross-check.")
REAL_COMPONENTS = ["semantiva.cli main/_run", "YAML loader / parse_pipeline_config", "inspection builder + validator",
                   "expand_run_space", "Pipeline/orchestrator/trace driver for accepted configs"]
STUB_COMPONENTS = ["leaf processors", "RecordingExecutor/SvOrchestrator (selected from YAML execution block)", "file seam + sandbox tree diff"]
ASSUMPTIONS = ["exit-code class asserted only where docs/source/cli.rst is unambiguous: usage error 1, missing pipeline file 2, "
               "validation failure / missing context key / malformed or over-cap run-space 3, no-execute flags on a valid config 0; "
               "otherwise merely non-zero"]
REQUIRED_PROBES = ["case.valid_run", "case.flag_no_exec", "case.invalid_config", "case.missing_key_never_produced",
                   "case.missing_key_produced_later", "case.runspace_supplied", "case.runspace_malformed", "case.runspace_over_cap",
                   "case.missing_file", "case.usage_error", "case.failing_run", "dry_run_requested_in_yaml", "source_file_changed_between_launches"]
CONFIG = {
    "quick": {"runs": 2500, "budget_s": 240, "timeout_s": 120},
    "thorough": {"runs": 100000, "budget_s": 1600, "timeout_s": 120},
    "shrink_s": 40.0,
}
FLAGS = ["--validate", "--dry-run", "--run-space-dry-run"]


def _digest(obj) -> str:
    return hashlib.sha256(json.dumps(obj, sort_keys=True, default=repr).encode()).hexdigest()[:12]


def _ctx_args(ctx: dict, skip=()) -> list[str]:
    out = []
    for k, v in ctx.items():
        if k in skip:
            continue
        out += ["--context", f"{k}={harness.cli_value(v)}"]
    return out


def _required_keys(base: dict) -> dict[str, str]:
    """ctx0 keys whose removal makes some node unresolvable -> 'never' | 'later' (produced only by a later node)."""
    out = {}
    for k in base["context"]:
        b = copy.deepcopy(base)
        del b["context"][k]
        t = gen.recompute_truth(b)
        bad = [i for i, x in enumerate(t) if x["missing"]]
        if not bad:
            continue
        first = bad[0]
        later = any(k in x["creates"] for x in t[first:])
        earlier_removed = any(k in x["removes"] for x in t[:first])
        if earlier_removed:
            continue
        out[k] = "later" if later else "never"
    return out


def generate(rng: random.Random, tier: str, seed: int) -> dict:
    for _ in range(20):
        base = gen.gen_pipeline(rng, max_nodes=6)
        if base["init_data"] is None:
            break
    base = {k: base[k] for k in ("nodes", "context", "init_data", "truth")}
    n = len(base["nodes"])
    req = _required_keys(base)
    cases = []
    kinds = ["valid_run", "flag_no_exec", "invalid_config", "invalid_config", "runspace_supplied", "runspace_malformed",
             "runspace_over_cap", "missing_file", "usage_error", "failing_run", "failing_run", "set_override"]
    if req:
        kinds += ["missing_key", "missing_key", "missing_key"]
    # bias towards use-before-create: add a later producer for a required key
    rng.shuffle(kinds)
    for kind in kinds[: rng.randint(5, 8)]:
        c = {"kind": kind, "trace_mode": rng.choice(["file", "dir"]), "flags": [], "subprocess_crosscheck": rng.random() < 0.012,
             "verbosity": rng.choice([None, None, "-v", "-q", "--verbose"])}
        if kind == "flag_no_exec":
            c["flags"] = rng.sample(FLAGS, rng.randint(1, 2))
            c["with_set"] = rng.random() < 0.4
            c["via_rs_file"] = rng.random() < 0.3
            c["dry_run_in_yaml"] = rng.random() < 0.3
            c["with_cap_flag"] = rng.random() < 0.6
        elif kind == "invalid_config":
            c["how"] = rng.choice(["unknown_processor", "unknown_param", "type_gate", "type_gate_subclass", "probe_no_key",
                                   "deleted_then_required", "external_deleted_then_required", "external_renamed_then_required"])
            c["at"] = rng.randrange(n)
            if rng.random() < 0.3:
                c["flags"] = [rng.choice(["--dry-run", "--run-space-dry-run"])]
        elif kind == "missing_key":
            k = rng.choice(sorted(req))
            c["key"] = k
            c["why"] = req[k]
            if rng.random() < 0.25:
                c["flags"] = ["--dry-run"]
            c["with_run_space"] = rng.random() < 0.4      # other keys come from a run space with >= 2 runs
        elif kind == "runspace_supplied":
            c["seed"] = rng.getrandbits(32)
        elif kind == "runspace_malformed":
            c["how"] = rng.choice(["unequal_lengths", "duplicate_keys", "bad_mode", "bad_combine", "zip_blocks_unequal",
                                   "duplicate_key_via_source", "duplicate_key_via_source_rename", "duplicate_key_context_vs_source",
                                   "by_position_empty_source", "by_position_empty_context",
                                   "rename_onto_later_column", "rename_onto_earlier_column"])
        elif kind == "runspace_over_cap":
            c["how"] = rng.choice(["block_max_runs", "cli_max_runs", "block_max_runs_0", "cli_max_runs_0", "cli_max_runs_product_minus_1",
                                   "source_grown_since_last_launch", "source_lost_a_column_since_last_launch"])
            c["via_rs_file"] = rng.random() < 0.3       # the run space itself comes from --run-space-file
            # the same 4-run plan written in each documented way: the cap applies to the plan, however it is assembled
            c["shape"] = rng.choice(["one_comb", "one_bypos", "two_blocks_comb", "two_blocks_bypos", "comb_blocks_zipped"])
        elif kind == "missing_file":
            c["how"] = rng.choice(["pipeline", "run_space_source", "run_space_file"])
        elif kind == "usage_error":
            c["how"] = rng.choice(["bogus_flag", "no_pipeline_arg", "bad_int"])
        elif kind == "failing_run":
            c["nruns"] = rng.randint(2, 4)
            c["fail_at"] = rng.choice([None] + list(range(4)))
            c["node"] = rng.randrange(n)
            c["fault"] = rng.choice(["exception", "exception", "kbint", "abort", "sysexit"])
        elif kind == "set_override":
            c["how"] = rng.choice(["valid_value", "unknown_processor", "unknown_key"])
        cases.append(c)
    # make use-before-create reachable often: if a required key exists, sometimes append a later producer of it
    if req and rng.random() < 0.5 and base["truth"][-1]["out"] == "float":
        k = rng.choice(sorted(req))
        if isinstance(base["context"][k], float):
            base["nodes"] = base["nodes"] + [{"processor": "SvProbe", "context_key": k}]
            base["truth"] = gen.recompute_truth(base)
            req = _required_keys(base)
            for c in cases:
                if c["kind"] == "missing_key":
                    if c["key"] in req:
                        c["why"] = req[c["key"]]
    return {"base": base, "cases": cases}


def _mutate_invalid(nodes: list[dict], how: str, at: int, truth: list[dict]) -> list[dict] | None:
    nodes = copy.deepcopy(nodes)
    if how == "unknown_processor":
        nodes[at]["processor"] = "SvNoSuchProcessor"
        nodes[at].pop("derive", None)
        return nodes
    if how == "unknown_param":
        cands = [i for i, t in enumerate(truth) if not t["generated"] and t["kind"] in ("source", "op", "probe", "sink", "psource")]
        if not cands:
            return None
        i = cands[at % len(cands)]
        nodes[i].setdefault("parameters", {})["bogus_param"] = 1.0
        return nodes
    if how == "type_gate":
        # Only directly after a data node: the validator documents that it checks consecutive data-processing
        # nodes and skips context-only nodes (type flow across those is C02's analysis, which is not claimed).
        cands = [i for i in range(1, len(truth) + 1) if truth[i - 1]["out"] == "float" and truth[i - 1]["kind"] != "ctx"]
        if not cands:
            return None
        nodes.insert(cands[at % len(cands)], {"processor": "SvTextLen"})
        return nodes
    if how == "type_gate_subclass":
        # the next node requires a strict SUBCLASS of what the previous data node outputs (FloatDataType -> SvSubFloat)
        cands = [i for i in range(1, len(truth) + 1) if truth[i - 1]["out"] == "float" and truth[i - 1]["kind"] != "ctx"]
        if not cands:
            return None
        nodes.insert(cands[at % len(cands)], {"processor": "SvNeedsSubFloat"})
        return nodes
    if how == "probe_no_key":
        cands = [i for i, t in enumerate(truth) if t["kind"] == "probe"]
        if not cands:
            return None
        nodes[cands[at % len(cands)]].pop("context_key", None)
        return nodes
    if how in ("external_deleted_then_required", "external_renamed_then_required"):
        # the key `offset` is supplied from outside (--context), removed by a context processor, then needed again
        cands = [i for i in range(1, len(truth) + 1) if truth[i - 1]["out"] == "float"]
        if not cands or any("offset" in (t["creates"] + t["removes"]) for t in truth):
            return None
        i = cands[at % len(cands)]
        killer = {"processor": "delete:offset"} if how.startswith("external_deleted") else {"processor": "rename:offset:offset_moved"}
        nodes[i:i] = [killer, {"processor": "SvProbeParam", "context_key": "edr_out"}]
        return nodes
    if how == "deleted_then_required":
        cands = [i for i in range(1, len(truth) + 1) if truth[i - 1]["out"] == "float"]
        if not cands:
            return None
        i = cands[at % len(cands)]
        nodes[i:i] = [{"processor": "SvProbe", "context_key": "dtr_key"}, {"processor": "delete:dtr_key"},
                      {"processor": "SvProbeParam", "context_key": "dtr_out", "parameters": {}}]
        # SvProbeParam requires 'offset'; rename so the deleted key is what it needs
        nodes[i] = {"processor": "SvProbe", "context_key": "offset"}
        nodes[i + 1] = {"processor": "delete:offset"}
        return nodes
    return None


def run_case(sc: dict, c: dict, w, stats: dict, idx: int) -> list[dict]:
    base = sc["base"]
    ctx = base["context"]
    nodes = copy.deepcopy(base["nodes"])
    name = f"c{idx}"
    trace = harness.trace_cfg(c["trace_mode"], "hash", name)
    argv = ["run", f"{name}.yaml"]
    run_space = None
    extra_files: dict[str, str] = {}
    expect = {"exec": None, "code": None, "nonzero": False, "max_runs_started": None}
    kind = c["kind"]
    skip_ctx: set = set()
    faults: list = []
    label = kind
    if kind == "valid_run":
        expect.update(exec=True, code=0)
    elif kind == "flag_no_exec":
        expect.update(exec=False, code=0)
        if c.get("with_set"):
            argv += ["--set", "trace.options.detail=all"]
            label = "flag_no_exec+set"
        if c.get("via_rs_file"):
            run_space = {"blocks": [{"mode": "by_position", "context": {"rs_other": [1.0, 2.0]}}]}
        if c.get("dry_run_in_yaml"):
            # the dry run is requested by the configuration itself (`run_space.dry_run: true`), alone or together with a
            # run-space cap on the command line; nothing on the command line takes the request back
            run_space = dict(run_space or {"blocks": [{"mode": "by_position", "context": {"rs_other": [1.0, 2.0]}}]}, dry_run=True)
            c = dict(c, flags=(["--run-space-max-runs", "50"] if c.get("with_cap_flag") else []))
            label = "flag_no_exec:dry_run_in_yaml" + ("+cap_flag" if c.get("with_cap_flag") else "")
            stats["probe.dry_run_requested_in_yaml"] = stats.get("probe.dry_run_requested_in_yaml", 0) + 1
    elif kind == "invalid_config":
        m = _mutate_invalid(nodes, c["how"], c["at"], base["truth"])
        if m is None:
            return []
        nodes = m
        expect.update(exec=False, code=3)
        label = f"invalid_config:{c['how']}"
        if c["how"].startswith("external_"):
            ctx = dict(ctx)
            ctx.setdefault("offset", 1.5)
    elif kind == "missing_key":
        skip_ctx = {c["key"]}
        expect.update(exec=False, code=3)
        label = f"missing_key:{'produced_only_later' if c['why'] == 'later' else 'never_produced'}"
        stats[f"probe.case.missing_key_{'produced_later' if c['why'] == 'later' else 'never_produced'}"] = stats.get(
            f"probe.case.missing_key_{'produced_later' if c['why'] == 'later' else 'never_produced'}", 0) + 1
        if c.get("with_run_space"):
            run_space = {"blocks": [{"mode": "by_position", "context": {"rs_other": [1.0, 2.0, 3.0]}}]}
            label += "+run_space"
    elif kind == "runspace_supplied":
        rng = random.Random(c["seed"])
        keys = sorted(ctx)
        take = keys[: max(1, len(keys) // 2)] if keys else []
        nvals = rng.randint(1, 3)
        blk = {"mode": "by_position", "context": {k: [ctx[k]] * nvals for k in take} or {"rs_only": [1.0] * nvals}}
        run_space = {"blocks": [blk]}
        skip_ctx = set(take)
        expect.update(exec=True, code=0, runs=nvals)
    elif kind == "runspace_malformed":
        how = c["how"]
        if how == "unequal_lengths":
            run_space = {"blocks": [{"mode": "by_position", "context": {"rs_a": [1.0, 2.0], "rs_b": [1.0]}}]}
        elif how == "duplicate_keys":
            run_space = {"blocks": [{"mode": "by_position", "context": {"rs_a": [1.0]}}, {"mode": "by_position", "context": {"rs_a": [2.0]}}]}
        elif how == "duplicate_key_via_source":
            extra_files["dup.csv"] = "rs_a\n5.0\n"
            run_space = {"blocks": [{"mode": "by_position", "context": {"rs_a": [1.0]}},
                                    {"mode": "by_position", "source": {"format": "csv", "path": "dup.csv"}}]}
        elif how == "duplicate_key_via_source_rename":
            extra_files["dup.csv"] = "col\n5.0\n"
            run_space = {"blocks": [{"mode": "by_position", "context": {"rs_a": [1.0]}},
                                    {"mode": "by_position", "source": {"format": "csv", "path": "dup.csv", "rename": {"col": "rs_a"}}}]}
        elif how == "duplicate_key_context_vs_source":
            extra_files["dup.csv"] = "rs_a\n5.0\n"
            run_space = {"blocks": [{"mode": "by_position", "context": {"rs_a": [1.0]}, "source": {"format": "csv", "path": "dup.csv"}}]}
        elif how in ("rename_onto_later_column", "rename_onto_earlier_column"):
            # a column renamed onto the name of another (not renamed) column of the same file, in either column order
            hdr = "rs_a,rs_b" if how == "rename_onto_later_column" else "rs_b,rs_a"
            extra_files["collide.csv"] = hdr + "\n1.0,2.0\n3.0,4.0\n"
            run_space = {"blocks": [{"mode": "by_position", "source": {"format": "csv", "path": "collide.csv", "rename": {"rs_a": "rs_b"}}}]}
        elif how == "by_position_empty_source":
            extra_files["empty.csv"] = "rs_b\n"            # header only: the source side expands to zero runs
            run_space = {"blocks": [{"mode": "by_position", "context": {"rs_a": [1.0, 2.0, 3.0]}, "source": {"format": "csv", "path": "empty.csv"}}]}
        elif how == "by_position_empty_context":
            extra_files["three.csv"] = "rs_b\n1.0\n2.0\n3.0\n"
            run_space = {"blocks": [{"mode": "by_position", "context": {"rs_a": []}, "source": {"format": "csv", "path": "three.csv"}}]}
        elif how == "bad_mode":
            run_space = {"blocks": [{"mode": "zipper", "context": {"rs_a": [1.0]}}]}
        elif how == "bad_combine":
            run_space = {"combine": "sideways", "blocks": [{"mode": "by_position", "context": {"rs_a": [1.0]}}]}
        else:
            run_space = {"combine": "by_position", "blocks": [{"mode": "by_position", "context": {"rs_a": [1.0, 2.0]}},
                                                             {"mode": "by_position", "context": {"rs_b": [1.0]}}]}
        expect.update(exec=False, code=3)
        label = f"runspace_malformed:{how}"
    elif kind == "runspace_over_cap" and c["how"] in ("source_grown_since_last_launch", "source_lost_a_column_since_last_launch"):
        # a history: the same source path was launched successfully a moment ago in this process; then the file changed
        src = f"{name}_rows.csv"
        with open(src, "w") as fh:
            fh.write("rs_a,rs_b\n1.0,10.0\n2.0,20.0\n")
        rs_pre = {"max_runs": 3, "blocks": [{"mode": "by_position", "source": {"format": "csv", "path": src, "select": ["rs_a", "rs_b"]}}]}
        harness.write_cli_config({"nodes": nodes}, f"{name}_pre.yaml", trace=None, run_space=rs_pre)
        w.set_faults([])
        pre = harness.run_cli(["run", f"{name}_pre.yaml", "-q"] + _ctx_args(ctx, skip=skip_ctx))
        stats["probe.source_file_changed_between_launches"] = stats.get("probe.source_file_changed_between_launches", 0) + 1
        if c["how"] == "source_grown_since_last_launch":
            extra_files[src] = "rs_a,rs_b\n" + "".join(f"{i}.0,{i}0.0\n" for i in range(1, 6))       # 5 rows, cap 3
        else:
            extra_files[src] = "rs_a\n1.0\n2.0\n"                                                    # column rs_b is gone
        run_space = rs_pre
        label = f"runspace_over_cap:{c['how']}" if c["how"].startswith("source_grown") else f"runspace_malformed:{c['how']}"
        expect.update(exec=False, code=3)
        if pre["code"] != 0:
            return []        # the valid launch did not run as planned (C01/C02 territory): no judgement on the second one
    elif kind == "runspace_over_cap":
        run_space = {"blocks": [{"mode": "combinatorial", "context": {"rs_a": [1.0, 2.0], "rs_b": [1.0, 2.0]}}]}
        shape = c.get("shape", "one_comb")
        if shape == "one_bypos":
            run_space = {"blocks": [{"mode": "by_position", "context": {"rs_a": [1.0, 2.0, 3.0, 4.0], "rs_b": [1.0, 2.0, 3.0, 4.0]}}]}
        elif shape == "two_blocks_comb":
            run_space = {"combine": "combinatorial", "blocks": [{"mode": "by_position", "context": {"rs_a": [1.0, 2.0]}},
                                                                  {"mode": "combinatorial", "context": {"rs_b": [1.0, 2.0]}}]}
        elif shape == "two_blocks_bypos":
            run_space = {"combine": "by_position", "blocks": [{"mode": "by_position", "context": {"rs_a": [1.0, 2.0, 3.0, 4.0]}},
                                                                {"mode": "by_position", "context": {"rs_b": [1.0, 2.0, 3.0, 4.0]}}]}
        elif shape == "comb_blocks_zipped":
            run_space = {"combine": "by_position", "blocks": [{"mode": "combinatorial", "context": {"rs_a": [1.0, 2.0], "rs_c": [1.0, 2.0]}},
                                                                {"mode": "by_position", "context": {"rs_b": [1.0, 2.0, 3.0, 4.0]}}]}
        if c["how"] == "block_max_runs":
            run_space["max_runs"] = 3
        elif c["how"] == "block_max_runs_0":
            run_space["max_runs"] = 0
        elif c["how"] == "cli_max_runs_0":
            argv += ["--run-space-max-runs", "0"]
        elif c["how"] == "cli_max_runs_product_minus_1":
            argv += ["--run-space-max-runs", "3"]
        else:
            argv += ["--run-space-max-runs", "2"]
        label = f"runspace_over_cap:{c['how']}" + ("" if shape == "one_comb" else f":{shape}")
        expect.update(exec=False, code=3)
    elif kind == "missing_file":
        if c["how"] == "pipeline":
            argv[1] = "does_not_exist.yaml"
            expect.update(exec=False, code=2)
        elif c["how"] == "run_space_source":
            run_space = {"blocks": [{"mode": "by_position", "source": {"format": "csv", "path": "nope.csv"}}]}
            expect.update(exec=False, nonzero=True)
        else:
            argv += ["--run-space-file", "nope_rs.yaml"]
            expect.update(exec=False, code=2)
        label = f"missing_file:{c['how']}"
    elif kind == "usage_error":
        if c["how"] == "bogus_flag":
            argv += ["--no-such-flag"]
        elif c["how"] == "no_pipeline_arg":
            argv = ["run"]
        else:
            argv += ["--run-space-max-runs", "many"]
        expect.update(exec=False, code=1)
    elif kind == "failing_run":
        nr = c["nruns"]
        run_space = {"blocks": [{"mode": "by_position", "context": {"rs_idx": [float(i) for i in range(nr)]}}]}
        fa = c["fail_at"]
        if fa is not None and fa < nr:
            base_run = w.cur_run + 1
            faults = [{"site": "executor_pre", "kind": c["fault"], "node": c["node"], "run": base_run + fa}]
            expect.update(exec=True, nonzero=True, max_runs_started=fa + 1, runs=fa + 1)
            label = f"failing_run:{c['fault']}"
        else:
            expect.update(exec=True, code=0, runs=nr)
            label = "failing_run:none"
    elif kind == "set_override":
        if c["how"] == "valid_value":
            argv += ["--set", "trace.options.detail=all"]
            expect.update(exec=True, code=0)
        elif c["how"] == "unknown_processor":
            argv += ["--set", "pipeline.nodes.0.processor=SvNoSuchProcessor"]
            expect.update(exec=False, code=3)
        else:
            argv += ["--set", "pipeline.nodes.0.nonexistent_key=1"]
            expect.update(exec=False, code=3)
        label = f"set_override:{c['how']}"
    argv += list(c.get("flags", []))
    if c.get("flags") and kind != "flag_no_exec":
        label += "+flag"
    if c.get("verbosity") and kind != "usage_error":
        argv.append(c["verbosity"])
        stats["probe.verbosity_flag"] = stats.get("probe.verbosity_flag", 0) + 1
    argv += _ctx_args(ctx, skip=skip_ctx)
    if c.get("via_rs_file") and run_space is not None:
        import yaml as _yaml
        extra_files[f"{name}_rs.yaml"] = _yaml.safe_dump({"run_space": run_space}, sort_keys=False)
        argv += ["--run-space-file", f"{name}_rs.yaml"]
        run_space = None
        label += "+run_space_file"
        stats["probe.run_space_file_with_flags"] = stats.get("probe.run_space_file_with_flags", 0) + 1
    harness.write_cli_config({"nodes": nodes}, f"{name}.yaml", trace=trace, run_space=run_space)
    for fn, text in extra_files.items():
        with open(fn, "w") as f:
            f.write(text)
    tree_before = set(w.sandbox_tree())
    inv0, ex0 = len(w.invocations), len(w.exec_log)
    run0 = w.cur_run
    w.set_faults(faults)
    r = harness.run_cli(argv)
    inv, ex = w.invocations[inv0:], w.exec_log[ex0:]
    new_files = sorted(set(w.sandbox_tree()) - tree_before)
    runs_started = w.cur_run - run0
    stats[f"probe.case.{kind}"] = stats.get(f"probe.case.{kind}", 0) + 1
    stats["cli_invocations"] = stats.get("cli_invocations", 0) + 1
    if faults and w.faults_fired and w.faults_fired[-1]["run"] == faults[0]["run"]:
        stats[f"fault.{c['fault']}"] = stats.get(f"fault.{c['fault']}", 0) + 1
    out = []
    code = r["code"]
    if isinstance(code, str) and faults and r.get("exc") is not None and r["exc"] is w.last_injected:
        # the node's own BaseException-class abort left cli.main: the process dies of it (traceback, status 1) - a non-zero exit
        code = 1
        stats["probe.abort_propagated_out_of_cli"] = stats.get("probe.abort_propagated_out_of_cli", 0) + 1
    where = f"case {label}: argv={argv[:6]}... exit={code} stderr={r['stderr'][:160]!r}"
    if c.get("subprocess_crosscheck") and not faults and not isinstance(code, str):
        _crosscheck_subprocess(w, name, argv, code, new_files, stats)
    if isinstance(code, str):
        out.append(oracles.V("cli_crash", label, where))
        return out
    if expect["exec"] is False:
        # "executes no node - no sink output, no trace file - when ..."
        if inv or ex:
            out.append(oracles.V("no_execute", f"nodes_ran:{label}", f"{where}; {len(ex)} node(s) started, leaves {[i['cls'] for i in inv][:5]}"))
        if new_files:
            out.append(oracles.V("no_execute", f"files_written:{label}", f"{where}; new files {new_files[:4]}"))
        if expect["code"] is not None and code != expect["code"]:
            out.append(oracles.V("exit_code", f"{label}:got_{code}_want_{expect['code']}", where))
        if expect["nonzero"] and code == 0:
            out.append(oracles.V("exit_code", f"{label}:zero_on_rejected", where))
    else:
        planned = expect.get("runs")
        n_nodes = len(nodes)
        if expect["code"] == 0:
            # "It exits 0 exactly when every planned run completed"
            if code != 0:
                # a valid config that does not run as bookkeeping predicts is C01/C02 territory
                stats["subrun_not_as_planned"] = stats.get("subrun_not_as_planned", 0) + 1
                if kind in ("valid_run", "runspace_supplied") and runs_started == 0:
                    out.append(oracles.V("exit_code", f"{label}:valid_config_rejected_{code}", where))
                return out
            want_runs = planned or 1
            if runs_started != want_runs or len(ex) != want_runs * n_nodes:
                out.append(oracles.V("exit_code", f"{label}:exit0_but_runs_incomplete", f"{where}; runs started {runs_started}/{want_runs}, nodes executed {len(ex)}"))
        else:
            if code == 0:
                out.append(oracles.V("exit_code", f"{label}:exit0_although_run_failed", where))
            if expect["max_runs_started"] is not None and runs_started > expect["max_runs_started"]:
                # "with runs after a failed run not started"
                out.append(oracles.V("after_failure", f"{label}:later_run_started", f"{where}; {runs_started} runs started, failure injected in run index {expect['max_runs_started'] - 1}"))
    return out


def _crosscheck_subprocess(w, name: str, argv: list[str], code, new_files: list[str], stats: dict) -> None:
    """The in-process CLI must not be a different system: run the same command as a real
    `python -m semantiva.cli` process in a copy of the inputs; exit code and the kinds of files written must agree.
    A disagreement is a harness error (raises), never a violation."""
    import shutil
    import subprocess
    import sys as _sys
    sub = os.path.join(w.sandbox, f"sub_{name}")
    os.makedirs(sub, exist_ok=True)
    for fn in os.listdir(w.sandbox):
        full = os.path.join(w.sandbox, fn)
        if os.path.isfile(full) and fn not in new_files and (fn.startswith(name + ".") or fn.startswith(name + "_rs.") or fn.endswith((".csv", ".json"))):
            shutil.copy(full, sub)
    env = dict(os.environ)
    p = subprocess.run([_sys.executable, "-m", "semantiva.cli"] + argv, cwd=sub, env=env, capture_output=True, text=True)
    produced = sorted(os.path.relpath(os.path.join(r, f), sub) for r, _d, fs in os.walk(sub) for f in fs)
    inputs = {f for f in produced if f.startswith(name + ".yaml") or f.startswith(name + "_rs.") or f.endswith((".csv", ".json"))}
    # sink files may pre-exist in the shared sandbox (same name from an earlier case), so only trace files are compared
    kinds_sub = sorted({"trace" for f in produced if f not in inputs and f.endswith(".jsonl")})
    kinds_in = sorted({"trace" for f in new_files if f.endswith(".jsonl")})
    stats["probe.subprocess_crosscheck"] = stats.get("probe.subprocess_crosscheck", 0) + 1
    shutil.rmtree(sub, ignore_errors=True)
    if p.returncode != code or kinds_sub != kinds_in:
        raise RuntimeError(f"in-process CLI and subprocess disagree for {argv}: exit {code} vs {p.returncode}; files {kinds_in} vs {kinds_sub}; "
                           f"stderr={p.stderr[-300:]!r}")


def execute(sc: dict, seed: int) -> dict:
    stats: dict = {}
    viols: list[dict] = []
    w = SimWorld(seed, lane="c17")
    nontrivial = []
    bd = _digest({"n": sc["base"]["nodes"], "c": sc["base"]["context"]})
    try:
        for i, c in enumerate(sc["cases"]):
            before = stats.get("cli_invocations", 0)
            vs = run_case(sc, c, w, stats, i)
            for v in vs:
                v["case"] = c
            viols.extend(vs)
            if stats.get("cli_invocations", 0) == before:
                continue          # the mutation was not applicable to this base pipeline: nothing was executed
            nontrivial.append(f"{bd}/{c['kind']}/{c.get('how', '')}/{','.join(c.get('flags', []))}")
        seen, uniq = set(), []
        for v in viols:
            kk = (v["clause"], v["key"])
            if kk not in seen:
                seen.add(kk)
                uniq.append(v)
        stats["sim_seconds"] = 0.0265 * w.clock.reads
        sample = {"nodes": sc["base"]["nodes"], "context": sc["base"]["context"], "cases": sc["cases"][:4]}
        return {"violations": uniq, "stats": stats, "digests": [bd], "nontrivial": nontrivial, "sample": sample, "digest": w.digest()}
    finally:
        w.close()


def shrink_candidates(sc: dict):
    cs = sc["cases"]
    for i in range(len(cs)):
        if len(cs) > 1:
            yield dict(sc, cases=[cs[i]])
    base = sc["base"]
    n = len(base["nodes"])
    for i in reversed(range(n)):
        if n <= 1:
            break
        b = copy.deepcopy(base)
        del b["nodes"][i]
        t = gen.recompute_truth(b)
        if t is None or any(x["missing"] or not x["type_ok"] for x in t):
            continue
        b["truth"] = t
        yield dict(sc, base=b)
