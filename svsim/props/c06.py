"""C06 - every run leaves a well-formed, schema-valid trace, whatever node fails.

One evaluation = one generated base pipeline, run fault-free and then with EVERY applicable
(failure kind x node index) pair (fault enumeration), at a sampled detail level and output mode.
"""
from __future__ import annotations

import copy
import hashlib
import json
import random

from .. import gen, harness, oracles
from ..world import SimWorld

EVAL_COUNTER = "subruns"
EVAL_UNIT = "one traced Pipeline.process call (a base pipeline's fault-free run or one enumerated (failure kind, node) sub-run)"
LEVEL = "fault_enumeration"
RULE = ("seeded base pipelines (1..8 nodes over the harness component library incl. sweeps, slicers, string "
        "shorthands); per base pipeline every applicable (failure kind x node index) pair is enumerated: leaf "
        "exception, executor pre/post exception, unresolvable parameter, type gate, undeclared context write "
        "(operation, context processor), unknown parameter, probe without context key, SimAbort, KeyboardInterrupt, "
        "plus the fault-free run; detail level and file/directory output sampled per sub-run. distinct_nontrivial = "
        "distinct (pipeline digest, failure kind, node) sub-runs in which the planned failure actually happened "
        "(fault fired / expected exception type observed) or, for fault-free, all nodes ran."
        " Further seeded dimensions: every subset of detail flags, existing dotted trace directory, transport fault after a node, bare/subclassed/non-string KeyError variants, None context values, non-finite parameters, runs started inside an except block, a node returning the wrong output type. Seventh round: config-borne failures are decided on an untraced run; the traced run must fail with the same exception.")
REAL_COMPONENTS = ["semantiva.pipeline.Pipeline", "LocalSemantivaOrchestrator.execute", "node factory + nodes",
                   "parameter resolution", "context observers", "sweep/slicer/rename/delete/template factories",
                   "graph_builder", "semantic ids", "JsonlTraceDriver", "trace schemas (current tree)"]
STUB_COMPONENTS = ["leaf processors (svsim.lib)", "RecordingExecutor (inline, = SequentialSemantivaExecutor contract)",
                   "clock/datetime/uuid (SimClock/SimUUID)", "file seam (tracking wrapper, real tmpfs bytes)"]
ASSUMPTIONS = ["jsonschema Draft 2020-12 + referencing implement the schemas faithfully",
               "SERs are validated against the registry-mapped schema only (not the header), as the property states",
               "a base pipeline whose fault-free run deviates from generator bookkeeping is discarded and counted"]
REQUIRED_PROBES = ["run_started_inside_except_block", "failure_at_first_node", "failure_at_last_node", "construction_error", "abort_class_failure", "directory_mode", "orchestrator_shared_by_different_pipelines"]
CONFIG = {
    "quick": {"runs": 800, "budget_s": 240, "timeout_s": 120},
    "thorough": {"runs": 25000, "budget_s": 1500, "timeout_s": 120},
    "shrink_s": 40.0,
}


def generate(rng: random.Random, tier: str, seed: int) -> dict:
    base = gen.gen_pipeline(rng)
    n = len(base["nodes"])
    if n >= 3 and rng.random() < 0.2:
        # fan-in: one or two skip connections on top of the chain (the orchestrator accepts any canonical edge list)
        pairs = [(i, j) for i in range(n) for j in range(i + 2, n)]
        base = dict(base, extra_edges=[list(e) for e in rng.sample(pairs, min(len(pairs), rng.randint(1, 2)))])
    return {"base": base, "sub_seed": rng.getrandbits(32), "only": None, "remote_exec": rng.random() < 0.3}


def _digest(obj) -> str:
    return hashlib.sha256(json.dumps(obj, sort_keys=True, default=repr).encode()).hexdigest()[:12]


def execute(sc: dict, seed: int) -> dict:
    base = sc["base"]
    rng = random.Random(sc["sub_seed"])
    w = SimWorld(seed, lane="c06")
    w.remote_exec = bool(sc.get("remote_exec"))
    stats: dict = {}
    viols: list[dict] = []
    nontrivial: list[str] = []
    try:
        bd = _digest({"n": base["nodes"], "c": base["context"], "d": base["init_data"]})
        # bookkeeping cross-check on an UNTRACED run (C01/C02 territory): decides the discard, so that a tracing defect
        # in the fault-free run is reported by the oracle below instead of emptying the sample
        rr0 = harness.run_scenario(dict(base, faults=[]), w, trace_mode="none", name="untraced")
        if not rr0["outcome"]["ok"] or len(rr0["exec_log"]) != len(base["nodes"]):
            stats["discarded_base_mismatch"] = 1
            return {"violations": [], "stats": stats, "digests": [bd], "nontrivial": [],
                    "note": f"base mismatch: {rr0['outcome'].get('exc_type')}: {rr0['outcome'].get('exc_msg')}"}
        subs: list[tuple[str, int, dict]] = [("none", -1, dict(base, faults=[]))]
        for kind, k in gen.applicable_failures(base):
            subs.append((kind, k, gen.apply_failure(base, kind, k)))
        if sc.get("only") is not None:
            subs = [s for s in subs if [s[0], s[1]] == list(sc["only"]) or (s[0] == "none" and sc.get("with_base", True))]
        # in a seeded third of the evaluations ONE orchestrator object serves every Pipeline of the evaluation (the sub-runs
        # are different configurations: nodes inserted, replaced, removed)
        shared_orch = harness.make_orchestrator() if rng.random() < 0.33 else None
        if shared_orch is not None:
            stats["probe.orchestrator_shared_by_different_pipelines"] = 1
        for i, (kind, k, s) in enumerate(subs):
            detail = rng.choice(harness.DETAILS)
            mode = rng.choice(["file", "file", "dir", "dir", "cwd", "dotdir", "file", "dir", "chardev"])
            if rng.random() < 0.15:
                # the run is started from inside an `except` block of the caller (a retry after a handled error)
                try:
                    raise LookupError("handled by the caller before this run started")
                except LookupError:
                    rr = harness.run_scenario(s, w, trace_mode=mode, detail=detail, name=f"t{i}", orchestrator=shared_orch)
                stats["probe.run_started_inside_except_block"] = stats.get("probe.run_started_inside_except_block", 0) + 1
            else:
                rr = harness.run_scenario(s, w, trace_mode=mode, detail=detail, name=f"t{i}", orchestrator=shared_orch)
            oc = rr["outcome"]
            stats["subruns"] = stats.get("subruns", 0) + 1
            stats["sim_seconds"] = stats.get("sim_seconds", 0.0)
            if kind == "none":
                if not oc["ok"]:
                    # the same pipeline returned when untraced: a traced fault-free run must return as well
                    viols.append(oracles.V("exception", "traced_fault_free_run_raised", f"untraced run returned, traced run (detail={detail}, mode={mode}) "
                                           f"raised {oc.get('exc_type')}: {oc.get('exc_msg')}"))
                nontrivial.append(f"{bd}/none")
            else:
                f = s["fail"]
                happened = False
                if f.get("injected"):
                    happened = bool([x for x in w.faults_fired if x["run"] == w.cur_run])
                    if happened:
                        fk = s["faults"][0]["kind"]
                        stats[f"fault.{kind}"] = stats.get(f"fault.{kind}", 0) + 1
                else:
                    # whether the configuration fails as the bookkeeping predicts is decided on an UNTRACED run of the same
                    # configuration, so that a tracing defect on this path is judged by the oracle instead of being skipped
                    rru = harness.run_scenario(s, w, trace_mode="none", name=f"u{i}")
                    ou = rru["outcome"]
                    happened = (not ou["ok"]) and ou.get("exc_type") == f["expect_exc"] and len(rru["exec_log"]) == f["expect_sers"]
                    if happened:
                        stats[f"fault.{kind}"] = stats.get(f"fault.{kind}", 0) + 1
                        # "The original exception reaches the caller unchanged": the traced run fails like the untraced one
                        if oc["ok"] or oc.get("exc_type") != ou.get("exc_type") or oc.get("exc_msg") != ou.get("exc_msg"):
                            viols.append(oracles.V("exception", f"traced_failure_differs_from_untraced/{kind}",
                                                   f"untraced: {ou.get('exc_type')}: {ou.get('exc_msg')!r}; traced (detail={detail}, mode={mode}): "
                                                   + (f"{oc.get('exc_type')}: {oc.get('exc_msg')!r}" if not oc["ok"] else "returned")))
                if not happened:
                    stats["subrun_not_as_planned"] = stats.get("subrun_not_as_planned", 0) + 1
                    if not f.get("injected"):
                        continue  # config-borne kind did not fail as bookkeeping predicts: C01/C02 territory
                else:
                    nontrivial.append(f"{bd}/{kind}/{k}")
                    if k == 0:
                        stats["probe.failure_at_first_node"] = stats.get("probe.failure_at_first_node", 0) + 1
                    if k >= len(base["nodes"]) - 1:
                        stats["probe.failure_at_last_node"] = stats.get("probe.failure_at_last_node", 0) + 1
                    if f.get("construction"):
                        stats["probe.construction_error"] = stats.get("probe.construction_error", 0) + 1
                    if f.get("base_exception"):
                        stats["probe.abort_class_failure"] = stats.get("probe.abort_class_failure", 0) + 1
            if mode in ("dir", "cwd", "dotdir"):
                stats["probe.directory_mode"] = stats.get("probe.directory_mode", 0) + 1
            vs = oracles.check_c06(rr, w, kind)
            for v in vs:
                v["sub"] = [kind, k]
                v["detail"] = detail
                v["mode"] = mode
            viols.extend(vs)
        stats["sim_seconds"] = w.clock.wall - w.clock.readings[0] if w.clock.readings else 0.0
        if w.remote_exec:
            stats["probe.remote_executor"] = 1
        # de-duplicate by (clause,key) keeping the first
        seen = set()
        uniq = []
        for v in viols:
            kk = (v["clause"], v["key"])
            if kk not in seen:
                seen.add(kk)
                uniq.append(v)
        sample = {"nodes": base["nodes"], "context": base["context"], "init_data": base["init_data"],
                  "failures_enumerated": [[a, b] for a, b, _ in subs][:40]}
        return {"violations": uniq, "stats": stats, "digests": [bd], "nontrivial": nontrivial,
                "sample": sample, "digest": w.digest()}
    finally:
        w.close()


def shrink_candidates(sc: dict):
    """Smaller scenarios: restrict to the failing sub-run, drop nodes, drop context keys."""
    base = sc["base"]
    n = len(base["nodes"])
    # 1. drop trailing / single nodes (recompute truth; skip invalid)
    for i in reversed(range(n)):
        if n <= 1:
            break
        b = copy.deepcopy(base)
        del b["nodes"][i]
        t = gen.recompute_truth(b)
        if t is None or any(x["missing"] or not x["type_ok"] for x in t):
            continue
        b["truth"] = t
        yield dict(sc, base=b)
    for k in list(base["context"]):
        b = copy.deepcopy(base)
        del b["context"][k]
        t = gen.recompute_truth(b)
        if t is None or any(x["missing"] for x in t):
            continue
        b["truth"] = t
        yield dict(sc, base=b)
