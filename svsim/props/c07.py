"""C07 - what a Semantic Execution Record says about its node is true.

One evaluation = one generated base pipeline executed under the four host TZ settings with the
SimClock as the only clock; fault-free plus sampled failing / stalling sub-runs. The executor log
(pre/post context, output data) and the leaf log (class that ran, kwargs actually passed) are the
independent account the SER is compared with.
"""
from __future__ import annotations

import copy
import hashlib
import json
import random

from .. import gen, harness, oracles
from ..world import SimWorld

EVAL_COUNTER = "subruns"
EVAL_UNIT = "one traced Pipeline.process call under one TZ (fault-free, failing or stalled sub-run)"
LEVEL = "exploration"
RULE = ("seeded base pipelines (every parameter placement: node / initial context / produced by an earlier node / "
        "default / default-overridden-by-context) x TZ in {UTC, +09:00, -08:00, +05:45} x detail levels; per TZ the "
        "fault-free run plus sampled sub-runs (unresolvable parameter, leaf exception, stall). distinct_nontrivial = "
        "distinct (pipeline digest, TZ, sub-run kind) whose trace contained at least one SER."
        " Further seeded dimensions: remote-executor emulation (new context object), in-place mutating leaf, equal contexts in different insertion order per TZ, falsy / NaN / int-vs-float context values, a node that writes then fails, strict-subclass payloads, every subset of detail flags. Seventh round: microsecond-resolution clocks with readings at the end of a second, node values shadowing a same-named context key.")
REAL_COMPONENTS = ["Pipeline / orchestrator SER composition", "DeltaCollector", "trace._utils digests", "JsonlTraceDriver",
                   "parameter resolution", "node factory + nodes", "generated sweep/slicer/shorthand classes"]
STUB_COMPONENTS = ["leaf processors (svsim.lib)", "RecordingExecutor", "SimClock (only clock), SimUUID", "TZ via tzset()"]
ASSUMPTIONS = ["clock steps >= 3 ms so millisecond truncation cannot confuse two readings",
               "the context delta of a node that raised is not checked (the statement speaks of before/after the node)",
               "distinct content must yield distinct digests (sha256 collisions ignored)"]
REQUIRED_PROBES = ["default_overridden_by_context", "probe_key_consumed_downstream", "local_date_ne_utc_date",
                   "stall_between_start_and_end", "default_channel", "context_channel", "node_channel", "remote_executor", "node_wrote_context_then_raised"]
CONFIG = {
    "quick": {"runs": 2000, "budget_s": 240, "timeout_s": 120},
    "thorough": {"runs": 60000, "budget_s": 1500, "timeout_s": 120},
    "shrink_s": 40.0,
}


def generate(rng: random.Random, tier: str, seed: int) -> dict:
    base = gen.gen_pipeline(rng)
    return {"base": base, "sub_seed": rng.getrandbits(32), "tzs": list(harness.TZS), "remote_exec": rng.random() < 0.3}


def _digest(obj) -> str:
    return hashlib.sha256(json.dumps(obj, sort_keys=True, default=repr).encode()).hexdigest()[:12]


def execute(sc: dict, seed: int) -> dict:
    base = sc["base"]
    rng = random.Random(sc["sub_seed"])
    stats: dict = {}
    viols: list[dict] = []
    nontrivial: list[str] = []
    bd = _digest({"n": base["nodes"], "c": base["context"], "d": base["init_data"]})
    truth = base["truth"]
    book: dict = {}
    digests = []
    fails = gen.applicable_failures(base)
    wtf = [f for f in fails if f[0] == "write_then_fail"]
    unres = [f for f in fails if f[0] == "unresolvable"]
    leafx = [f for f in fails if f[0] == "leaf_exception"]
    base_ctx_items = list(base["context"].items())
    for tz_i, tz in enumerate(sc["tzs"]):
        # equal content, different insertion order: "equal content gives equal digests"
        items = list(base_ctx_items)
        random.Random(sc["sub_seed"] + tz_i).shuffle(items)
        base = dict(base, context=dict(items))
        w = SimWorld(seed ^ hash_tz(tz), lane="c07", tz=tz)
        w.remote_exec = bool(sc.get("remote_exec"))
        if w.remote_exec:
            stats["probe.remote_executor"] = 1
        try:
            rr0 = harness.run_scenario(dict(base, faults=[]), w, trace_mode="none", name="untraced")
            if not rr0["outcome"]["ok"] or len(rr0["exec_log"]) != len(base["nodes"]):
                stats["discarded_base_mismatch"] = 1
                return {"violations": [], "stats": stats, "digests": [bd], "nontrivial": []}
            subs = [("none", -1, dict(base, faults=[]))]
            if unres and rng.random() < 0.6:
                kind, k = rng.choice(unres)
                subs.append((kind, k, gen.apply_failure(base, kind, k)))
            if leafx and rng.random() < 0.4:
                kind, k = rng.choice(leafx)
                subs.append((kind, k, gen.apply_failure(base, kind, k)))
            if wtf and rng.random() < 0.4:
                kind, k = rng.choice(wtf)
                subs.append((kind, k, gen.apply_failure(base, kind, k)))
            if rng.random() < 0.5:
                k = rng.randrange(len(base["nodes"]))
                subs.append(("stall", k, dict(base, faults=[{"site": "executor_pre", "kind": "stall", "node": k,
                                                             "seconds": rng.choice([1.5, 60.0, 3600.0])}])))
            dflt = [(k2, p2) for k2, t2 in enumerate(truth) for p2, ch2 in t2["channels"].items()
                    if ch2 == "default" and not t2["generated"] and p2 not in base["context"] and not any(p2 in u["creates"] for u in truth)]
            if dflt and rng.random() < 0.35:
                # the context holds the parameter's name with the value None: the context outranks the signature default, so None
                # is what the processor receives (it may well choke on it) and what the SER must report, channel "context"
                k2, p2 = rng.choice(dflt)
                subs.append(("none_in_context_masks_default", k2, dict(base, faults=[], context=dict(base["context"], **{p2: None}))))
            if sc.get("only") is not None:
                subs = [s for s in subs if s[0] == sc["only"]] or subs[:1]
            for i, (kind, k, s) in enumerate(subs):
                detail = rng.choice(["all", "all"] + harness.DETAILS)
                rr = harness.run_scenario(s, w, trace_mode=rng.choice(["file", "dir"]), detail=detail, name=f"t{i}")
                oc = rr["outcome"]
                stats["subruns"] = stats.get("subruns", 0) + 1
                if kind in ("none", "stall"):
                    if not oc["ok"] or len(rr["exec_log"]) != len(base["nodes"]):
                        viols.append(oracles.V("tracing", "traced_fault_free_run_raised", f"untraced run returned, traced run raised "
                                               f"{oc.get('exc_type')}: {oc.get('exc_msg')} (TZ={tz}, detail={detail})"))
                        continue
                if kind == "unresolvable" and (oc["ok"] or oc.get("exc_type") != "KeyError" or len(rr["exec_log"]) != k + 1):
                    stats["subrun_not_as_planned"] = stats.get("subrun_not_as_planned", 0) + 1
                    continue
                if kind == "stall" and [f for f in w.faults_fired if f["kind"] == "stall" and f["run"] == w.cur_run]:
                    stats["fault.stall"] = stats.get("fault.stall", 0) + 1
                    stats["probe.stall_between_start_and_end"] = stats.get("probe.stall_between_start_and_end", 0) + 1
                if kind in ("unresolvable", "leaf_exception", "write_then_fail"):
                    stats[f"fault.{kind}"] = stats.get(f"fault.{kind}", 0) + 1
                if kind == "write_then_fail":
                    stats["probe.node_wrote_context_then_raised"] = stats.get("probe.node_wrote_context_then_raised", 0) + 1
                if kind == "none_in_context_masks_default":
                    stats["probe.none_in_context_masks_default"] = stats.get("probe.none_in_context_masks_default", 0) + 1
                tr = truth if kind in ("none", "stall", "leaf_exception", "unresolvable", "none_in_context_masks_default") else None
                vs = oracles.check_c07(rr, w, s, tr, kind, tz, book)
                for v in vs:
                    v["sub"] = [kind, k]
                    v["tz"] = tz
                    v["detail"] = detail
                viols.extend(vs)
                if rr["exec_log"]:
                    nontrivial.append(f"{bd}/{tz}/{kind}")
                rd = rr["readings"]
                if rd:
                    stats["sim_seconds"] = stats.get("sim_seconds", 0.0) + (rd[-1] - rd[0])
                    off = harness.tz_offset_seconds(tz)
                    if off and int(rd[0] // 86400) != int((rd[0] + off) // 86400):
                        stats["probe.local_date_ne_utc_date"] = stats.get("probe.local_date_ne_utc_date", 0) + 1
            digests.append(w.digest())
        finally:
            w.close()
    # reach probes from bookkeeping
    from ..gen import CATALOG
    for t in truth:
        spec = CATALOG.get(t["name"])
        for p, ch in t["channels"].items():
            stats[f"probe.{ch}_channel"] = stats.get(f"probe.{ch}_channel", 0) + 1
            if ch == "context" and spec and spec["params"].get(p) is not None:
                stats["probe.default_overridden_by_context"] = stats.get("probe.default_overridden_by_context", 0) + 1
            if ch == "context":
                prior = [u for u in truth[: truth.index(t)] if p in u["creates"] and u["kind"] in ("probe", "sweep_probe")]
                if prior:
                    stats["probe.probe_key_consumed_downstream"] = stats.get("probe.probe_key_consumed_downstream", 0) + 1
    seen, uniq = set(), []
    for v in viols:
        kk = (v["clause"], v["key"])
        if kk not in seen:
            seen.add(kk)
            uniq.append(v)
    sample = {"nodes": base["nodes"], "context": base["context"], "init_data": base["init_data"], "tzs": sc["tzs"]}
    return {"violations": uniq, "stats": stats, "digests": [bd], "nontrivial": nontrivial, "sample": sample,
            "digest": _digest(digests)}


def hash_tz(tz: str) -> int:
    return int(hashlib.sha256(tz.encode()).hexdigest()[:8], 16)


def shrink_candidates(sc: dict):
    base = sc["base"]
    if len(sc["tzs"]) > 1:
        for tz in sc["tzs"]:
            yield dict(sc, tzs=[tz])
    n = len(base["nodes"])
    for i in reversed(range(n)):
        if n <= 1:
            break
        b = copy.deepcopy(base)
        del b["nodes"][i]
        t = gen.recompute_truth(b)
        if t is None or any(x["missing"] or not x["type_ok"] for x in t):
            continue
        b["truth"] = t
        yield dict(sc, base=b)
    for k in list(base["context"]):
        b = copy.deepcopy(base)
        del b["context"][k]
        t = gen.recompute_truth(b)
        if t is None or any(x["missing"] for x in t):
            continue
        b["truth"] = t
        yield dict(sc, base=b)
