"""Harness component library: leaf processors (user code by the framework's own definition).

Every leaf reports its invocation to the current SimWorld (the independent account of
what each node was actually given) and is a cooperative fault point.
Registered by name via ``ProcessorRegistry.register_modules(["svsim.lib"])`` or the
``extensions: ["svsim.lib"]`` YAML hook (module-level ``register()``).
"""
from __future__ import annotations

from semantiva.context_processors import ContextProcessor, ContextType
from semantiva.data_io import DataSink, DataSource, PayloadSink, PayloadSource
from semantiva.data_processors import DataOperation, DataProbe
from semantiva.data_types import BaseDataType
from semantiva.examples.test_utils import FloatDataCollection, FloatDataType
from semantiva.pipeline import Payload

from . import world as _world


def _W():
    return _world.WORLD


TICK = None  # optional callback(name) invoked by every leaf (C18 samples at run starts without recording anything)


def _invoke(name: str, kwargs: dict, data=None) -> None:
    if TICK is not None:
        TICK(name)
    w = _world.WORLD
    if w is not None:
        w.on_invoke(name, kwargs, data)


class SvTextDataType(BaseDataType[str]):
    """A text payload (used to build type gates)."""

    def validate(self, data: str) -> bool:
        if not isinstance(data, str):
            raise TypeError("Data must be a str")
        return True


# ---------------------------------------------------------------- sources
class SvSource(DataSource):
    """Float source with a required value."""

    @classmethod
    def _get_data(cls, value: float) -> FloatDataType:
        _invoke("SvSource", {"value": value})
        return FloatDataType(float(value))

    @classmethod
    def output_data_type(cls):
        return FloatDataType


class SvSourceDefault(DataSource):
    """Float source with a default value."""

    @classmethod
    def _get_data(cls, value: float = 41.5) -> FloatDataType:
        _invoke("SvSourceDefault", {"value": value})
        return FloatDataType(float(value))

    @classmethod
    def output_data_type(cls):
        return FloatDataType


class SvPayloadSource(PayloadSource):
    """Payload source injecting the declared key ``ps_key``."""

    @classmethod
    def _get_payload(cls, seed_value: float = 3.25) -> Payload:
        _invoke("SvPayloadSource", {"seed_value": seed_value})
        return Payload(FloatDataType(float(seed_value)), ContextType({"ps_key": float(seed_value) + 0.125}))

    @classmethod
    def output_data_type(cls):
        return FloatDataType

    @classmethod
    def _injected_context_keys(cls):
        return ["ps_key"]


# ---------------------------------------------------------------- operations
class _FloatOp(DataOperation):
    @classmethod
    def input_data_type(cls):
        return FloatDataType

    @classmethod
    def output_data_type(cls):
        return FloatDataType


class SvAdd(_FloatOp):
    """Add a required addend."""

    def _process_logic(self, data, addend: float):
        _invoke("SvAdd", {"addend": addend}, data)
        return FloatDataType(data.data + addend)


class SvJitter(_FloatOp):
    """A stochastic operation: adds a draw from Python's global `random` generator (a Monte-Carlo style processor).
    Reproducible exactly when the caller seeds that generator and nothing else draws from it in between."""

    def _process_logic(self, data, scale: float = 1.0):
        import random as _random
        _invoke("SvJitter", {"scale": scale}, data)
        return FloatDataType(data.data + scale * _random.random())


class SvAddDefault(_FloatOp):
    """Add an addend with default."""

    def _process_logic(self, data, addend: float = 1.5):
        _invoke("SvAddDefault", {"addend": addend}, data)
        return FloatDataType(data.data + addend)


class SvMul(_FloatOp):
    """Multiply by a required factor."""

    def _process_logic(self, data, factor: float):
        _invoke("SvMul", {"factor": factor}, data)
        return FloatDataType(data.data * factor)


class SvMulDefault(_FloatOp):
    """Multiply by a factor with default."""

    def _process_logic(self, data, factor: float = 2.0):
        _invoke("SvMulDefault", {"factor": factor}, data)
        return FloatDataType(data.data * factor)


class SvAffine(_FloatOp):
    """Two parameters: one required, one defaulted."""

    def _process_logic(self, data, gain: float, bias: float = 0.25):
        _invoke("SvAffine", {"gain": gain, "bias": bias}, data)
        return FloatDataType(data.data * gain + bias)


class SvPoly(_FloatOp):
    """Container-valued parameters (lists and a mapping): y = x * sum(coeffs) + sum(weights) + sum(table.values())."""

    def _process_logic(self, data, coeffs: list, weights: list, table: dict = None, table2: dict = None):  # noqa: RUF013
        _invoke("SvPoly", {"coeffs": coeffs, "weights": weights, "table": table, "table2": table2}, data)
        extra = sum((table or {}).values()) + sum((table2 or {}).values())
        return FloatDataType(data.data * sum(coeffs) + sum(weights) + extra)


class SvClip(_FloatOp):
    """Optional bounds: both parameters default to None (= no bound)."""

    def _process_logic(self, data, lower: float = None, upper: float = None):  # noqa: RUF013
        _invoke("SvClip", {"lower": lower, "upper": upper}, data)
        v = data.data
        if lower is not None:
            v = max(v, lower)
        if upper is not None:
            v = min(v, upper)
        return FloatDataType(v)


class SvSlow(_FloatOp):
    """Stalls for `delay` simulated seconds (slow job), then adds 0.5."""

    def _process_logic(self, data, delay: float = 0.0):
        _invoke("SvSlow", {"delay": delay}, data)
        w = _world.WORLD
        if w is not None and delay:
            w.stall(float(delay))
        return FloatDataType(data.data + 0.5)


class SvCaseOp(_FloatOp):
    """Two required parameters whose names differ only in case."""

    def _process_logic(self, data, Gain: float, gain: float):
        _invoke("SvCaseOp", {"Gain": Gain, "gain": gain}, data)
        return FloatDataType(data.data * Gain + gain)


class SvScaleInPlace(_FloatOp):
    """Mutates its input object in place and returns that same object (legal user code)."""

    def _process_logic(self, data, scale: float = 3.0):
        _invoke("SvScaleInPlace", {"scale": scale}, data)
        data.data = data.data * scale
        return data


class SvStreamDataType(BaseDataType):
    """A lazy, one-shot stream of floats (the value is a generator)."""

    def validate(self, data) -> bool:
        return True

    def __repr__(self) -> str:
        return "SvStreamDataType(<lazy>)"

    def __len__(self) -> int:
        raise TypeError("a lazy stream has no length")

    def __str__(self) -> str:
        return "SvStreamDataType(<lazy>)"


class SvToStream(DataOperation):
    """Float -> lazy stream of three floats."""

    @classmethod
    def input_data_type(cls):
        return FloatDataType

    @classmethod
    def output_data_type(cls):
        return SvStreamDataType

    def _process_logic(self, data, step: float = 0.5):
        _invoke("SvToStream", {"step": step}, data)
        base = data.data
        return SvStreamDataType(base + i * step for i in range(3))


class SvStreamSum(DataOperation):
    """Consumes the lazy stream -> float."""

    @classmethod
    def input_data_type(cls):
        return SvStreamDataType

    @classmethod
    def output_data_type(cls):
        return FloatDataType

    def _process_logic(self, data):
        items = list(data.data)
        _invoke("SvStreamSum", {}, None)
        w = _world.WORLD
        if w is not None and not w.quiet:
            w.log("stream.consumed", len(items))
        return FloatDataType(float(sum(items)) + 0.001 * len(items))


class SvSubFloat(FloatDataType):
    """A strict subclass of FloatDataType."""


class SvNeedsSubFloat(DataOperation):
    """Accepts only the subclass SvSubFloat (a plain FloatDataType is NOT acceptable)."""

    @classmethod
    def input_data_type(cls):
        return SvSubFloat

    @classmethod
    def output_data_type(cls):
        return FloatDataType

    def _process_logic(self, data):
        _invoke("SvNeedsSubFloat", "SvRaiseOdd", "SvProbeNone", "SvWrongOutput", "SvWriteThenFail", "SvCtxWriterOpaque", {}, data)
        return FloatDataType(data.data)


class SvOddError(Exception):
    """A domain exception that cannot be built from a single message string (like json.JSONDecodeError)."""

    def __init__(self, code: int, where: str):
        super().__init__(f"odd error {code} at {where}")
        self.code = code
        self.where = where


class SvRaiseOdd(_FloatOp):
    """Always raises SvOddError."""

    def _process_logic(self, data, code: float = 7.0):
        _invoke("SvRaiseOdd", {"code": code}, data)
        raise SvOddError(int(code), "SvRaiseOdd")


class SvWrongOutput(_FloatOp):
    """Declares FloatDataType output but returns a text payload (legal: the runtime does not gate on output types)."""

    def _process_logic(self, data):
        _invoke("SvWrongOutput", {}, data)
        return SvTextDataType(f"not-a-float:{data.data!r}")


class SvWriteThenFail(_FloatOp):
    """Writes its declared context key, THEN raises."""

    @classmethod
    def context_keys(cls):
        return ["wtf_key"]

    def _process_logic(self, data):
        _invoke("SvWriteThenFail", {}, data)
        self._notify_context_update("wtf_key", data.data + 0.03125)
        raise _world.SimFault("failed after writing wtf_key")


class SvOpaque:
    """A context value that is not JSON-serialisable and whose repr raises."""

    def __repr__(self):
        raise RuntimeError("sealed value")


class SvCtxWriterOpaque(_FloatOp):
    """Writes an opaque object under the declared key ``opq``."""

    @classmethod
    def context_keys(cls):
        return ["opq"]

    def _process_logic(self, data):
        _invoke("SvCtxWriterOpaque", {}, data)
        self._notify_context_update("opq", SvOpaque())
        return FloatDataType(data.data + 0.0)


class SvCtxWriterArray(_FloatOp):
    """Writes (or REBINDS, when it runs twice) the declared key ``arr`` with a multi-element numpy array: a value whose
    ``==`` is element-wise, not a bool."""

    @classmethod
    def context_keys(cls):
        return ["arr"]

    def _process_logic(self, data):
        import numpy as _np
        _invoke("SvCtxWriterArray", {}, data)
        self._notify_context_update("arr", _np.array([1.0, 2.0, float(data.data)]))
        return FloatDataType(data.data + 1.0)


class SvCtxWriterMixedKeys(_FloatOp):
    """Writes a mapping whose keys are of different types (legal Python, not sortable) under ``mk``."""

    @classmethod
    def context_keys(cls):
        return ["mk"]

    def _process_logic(self, data):
        _invoke("SvCtxWriterMixedKeys", {}, data)
        self._notify_context_update("mk", {1: 1.0, "b": 2.0})
        return FloatDataType(data.data + 0.0)


class SvAppendInPlace(_FloatOp):
    """Receives a list as a parameter (typically resolved from the context) and appends a SET to it in place: the list object
    the orchestrator recorded as this node's parameter now holds a value JSON cannot encode."""

    def _process_logic(self, data, acc: list):
        _invoke("SvAppendInPlace", {"acc": list(acc)}, data)
        acc.append({1, 2})
        return FloatDataType(data.data + 1.0)


class SvLabel(_FloatOp):
    """Identity on the data; takes a free-form text parameter (any str the configuration can hold)."""

    def _process_logic(self, data, label: str = ""):
        _invoke("SvLabel", {"label": label}, data)
        return FloatDataType(data.data + 0.0)


class SvCtxWriterFlag(_FloatOp):
    """Writes the boolean True under the declared key ``flag`` (a value that compares equal to the float 1.0)."""

    @classmethod
    def context_keys(cls):
        return ["flag"]

    def _process_logic(self, data):
        _invoke("SvCtxWriterFlag", {}, data)
        self._notify_context_update("flag", True)
        return FloatDataType(data.data + 0.0)


class SvCtxWriterA(_FloatOp):
    """Writes declared context key ``wa``."""

    @classmethod
    def context_keys(cls):
        return ["wa"]

    def _process_logic(self, data, scale: float = 1.0):
        _invoke("SvCtxWriterA", {"scale": scale}, data)
        self._notify_context_update("wa", data.data * scale + 0.0625)
        return FloatDataType(data.data + 0.0)


class SvCtxWriterB(_FloatOp):
    """Writes declared context key ``wb``."""

    @classmethod
    def context_keys(cls):
        return ["wb"]

    def _process_logic(self, data):
        _invoke("SvCtxWriterB", {}, data)
        self._notify_context_update("wb", data.data - 0.0625)
        return FloatDataType(data.data + 0.0)


class SvBadWriter(_FloatOp):
    """Declares ``bw_ok`` but writes an undeclared key."""

    @classmethod
    def context_keys(cls):
        return ["bw_ok"]

    def _process_logic(self, data):
        _invoke("SvBadWriter", {}, data)
        self._notify_context_update("bw_undeclared", 1.0)
        return FloatDataType(data.data)


class SvToText(DataOperation):
    """Float to text."""

    @classmethod
    def input_data_type(cls):
        return FloatDataType

    @classmethod
    def output_data_type(cls):
        return SvTextDataType

    def _process_logic(self, data):
        _invoke("SvToText", {}, data)
        return SvTextDataType(repr(data.data))


class SvTextLen(DataOperation):
    """Text to float (its length)."""

    @classmethod
    def input_data_type(cls):
        return SvTextDataType

    @classmethod
    def output_data_type(cls):
        return FloatDataType

    def _process_logic(self, data):
        _invoke("SvTextLen", {}, data)
        return FloatDataType(float(len(data.data)))


class SvBumpLast(DataOperation):
    """Returns a copy of the collection in which only the LAST item differs (plus `delta`)."""

    @classmethod
    def input_data_type(cls):
        return FloatDataCollection

    @classmethod
    def output_data_type(cls):
        return FloatDataCollection

    def _process_logic(self, data, delta: float = 1.0):
        _invoke("SvBumpLast", {"delta": delta}, data)
        items = [FloatDataType(i.data) for i in data.data]
        if items:
            items[-1] = FloatDataType(items[-1].data + delta)
        return FloatDataCollection.from_list(items) if hasattr(FloatDataCollection, "from_list") else FloatDataCollection(items)


class SvCollSum(DataOperation):
    """Sum a float collection into one float."""

    @classmethod
    def input_data_type(cls):
        return FloatDataCollection

    @classmethod
    def output_data_type(cls):
        return FloatDataType

    def _process_logic(self, data, weight: float = 1.0):
        _invoke("SvCollSum", {"weight": weight}, data)
        return FloatDataType(sum(i.data for i in data.data) * weight)


# ---------------------------------------------------------------- probes
class _FloatProbe(DataProbe):
    @classmethod
    def input_data_type(cls):
        return FloatDataType


class SvProbe(_FloatProbe):
    """Returns the value."""

    def _process_logic(self, data):
        _invoke("SvProbe", {}, data)
        return data.data * 1.0


class SvProbeNone(_FloatProbe):
    """A probe whose result is None (a legal context value)."""

    def _process_logic(self, data):
        _invoke("SvProbeNone", {}, data)
        return None


class SvProbeParam(_FloatProbe):
    """Returns value plus a required offset."""

    def _process_logic(self, data, offset: float):
        _invoke("SvProbeParam", {"offset": offset}, data)
        return data.data + offset


class SvProbeDefault(_FloatProbe):
    """Returns value plus a defaulted offset."""

    def _process_logic(self, data, offset: float = 0.5):
        _invoke("SvProbeDefault", {"offset": offset}, data)
        return data.data + offset


# ---------------------------------------------------------------- sinks
class SvFileSink(DataSink):
    """Writes the float into a text file (relative to cwd = sandbox)."""

    @classmethod
    def _send_data(cls, data: FloatDataType, path: str):
        _invoke("SvFileSink", {"path": path}, data)
        with open(path, "w") as f:
            f.write(repr(data.data) + "\n")

    @classmethod
    def input_data_type(cls):
        return FloatDataType


class SvNullSink(DataSink):
    """Discards the float."""

    @classmethod
    def _send_data(cls, data: FloatDataType):
        _invoke("SvNullSink", {}, data)

    @classmethod
    def input_data_type(cls):
        return FloatDataType


class SvPayloadSink(PayloadSink):
    """Receives the whole payload (data + context) and discards it."""

    @classmethod
    def _send_payload(cls, payload):
        _invoke("SvPayloadSink", {}, payload.data)

    @classmethod
    def input_data_type(cls):
        return FloatDataType


# ---------------------------------------------------------------- context processors
class SvCtxCombine(ContextProcessor):
    """comb_out = a_in * b_in (b_in defaulted)."""

    @classmethod
    def context_keys(cls):
        return ["comb_out"]

    def _process_logic(self, a_in: float, b_in: float = 1.25):
        _invoke("SvCtxCombine", {"a_in": a_in, "b_in": b_in})
        self._notify_context_update("comb_out", a_in * b_in)


class SvBadCtxProc(ContextProcessor):
    """Declares ``bc_ok`` but writes an undeclared key."""

    @classmethod
    def context_keys(cls):
        return ["bc_ok"]

    def _process_logic(self):
        _invoke("SvBadCtxProc", {})
        self._notify_context_update("bc_undeclared", 2.0)


LEAF_NAMES = [
    "SvSource", "SvSourceDefault", "SvPayloadSource", "SvAdd", "SvAddDefault", "SvMul",
    "SvMulDefault", "SvAffine", "SvClip", "SvPoly", "SvJitter", "SvSlow", "SvCaseOp", "SvScaleInPlace", "SvToStream", "SvStreamSum", "SvNeedsSubFloat", "SvRaiseOdd", "SvProbeNone", "SvWrongOutput", "SvWriteThenFail", "SvCtxWriterOpaque", "SvCtxWriterArray", "SvCtxWriterMixedKeys", "SvAppendInPlace", "SvUseModel", "SvLabel", "SvCtxWriterFlag", "SvCtxWriterA", "SvCtxWriterB", "SvBadWriter", "SvToText",
    "SvTextLen", "SvBumpLast", "SvCollSum", "SvProbe", "SvProbeParam", "SvProbeDefault", "SvFileSink",
    "SvNullSink", "SvPayloadSink", "SvCtxCombine", "SvBadCtxProc",
]


def register() -> None:
    """Extension hook: make the library (and the float types) resolvable by name."""
    from semantiva.registry import ProcessorRegistry

    ProcessorRegistry.register_modules(["svsim.lib", "semantiva.examples.test_utils"])
    try:
        from semantiva.execution.component_registry import ExecutionComponentRegistry
        from .executor import RecordingExecutor

        from .executor import SvOrchestrator

        ExecutionComponentRegistry.register_executor("SvRecordingExecutor", RecordingExecutor)
        ExecutionComponentRegistry.register_orchestrator("SvOrchestrator", SvOrchestrator)
    except Exception:  # pragma: no cover
        raise


# ---------------------------------------------------------------- a stateful object handed in through a `model:` descriptor
from semantiva.workflows.fitting_model import FittingModel  # noqa: E402


class SvOnlineMean(FittingModel):
    """Keeps running sums between calls: whoever receives an instance some earlier run already used sees that run's data."""

    def __init__(self, bias: float = 0.0):
        self.bias = float(bias)
        self.n = 0
        self.total = 0.0

    def fit(self, x_values, y_values):
        for y in y_values:
            self.n += 1
            self.total += float(y)
        return {"mean": self.total / max(1, self.n) + self.bias, "n": float(self.n)}


class SvUseModel(_FloatOp):
    """Feeds its input to the model object it was configured with and adds the model's running mean and sample count."""

    def _process_logic(self, data, model, gain: float = 1.0):
        _invoke("SvUseModel", {"model": type(model).__name__, "gain": gain}, data)
        r = model.fit([0.0], [float(data.data) * float(gain)])
        return FloatDataType(data.data + r["mean"] + 1000.0 * r["n"])
