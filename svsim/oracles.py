"""Oracles over recorded histories. Every clause quotes the property sentence it enforces."""
from __future__ import annotations

import os
from typing import Any

from . import harness


def V(clause: str, key: str, msg: str) -> dict:
    return {"clause": clause, "key": key, "msg": msg}


def split_records(recs: list[dict]) -> dict:
    return {
        "start": [r for r in recs if r.get("record_type") == "pipeline_start"],
        "ser": [r for r in recs if r.get("record_type") == "ser"],
        "end": [r for r in recs if r.get("record_type") == "pipeline_end"],
        "rs_start": [r for r in recs if r.get("record_type") == "run_space_start"],
        "rs_end": [r for r in recs if r.get("record_type") == "run_space_end"],
    }


def check_c06(rr: dict, w, fkind: str) -> list[dict]:
    """C06 for one traced Pipeline.process call. fkind = failure kind label ('none' if fault-free)."""
    out: list[dict] = []
    oc = rr["outcome"]
    recs, problems = harness.parse_lines(rr["emissions"])
    # "the emitted JSONL stream ..." - every line is one JSON object
    for p in problems:
        out.append(V("jsonl", f"unparseable/{fkind}", p))
    n_started = len(rr["exec_log"])
    types = [r.get("record_type") for r in recs]
    # "is pipeline_start, then one SER per node that started in canonical node order, then exactly one pipeline_end"
    if not types or types[0] != "pipeline_start":
        out.append(V("stream_shape", f"first_not_pipeline_start/{fkind}", f"record types: {types}"))
    if types.count("pipeline_start") != 1:
        out.append(V("stream_shape", f"pipeline_start_count/{fkind}", f"record types: {types}"))
    n_end = types.count("pipeline_end")
    if n_end == 0:
        out.append(V("stream_shape", f"no_pipeline_end/{fkind}", f"record types: {types}; outcome ok={oc['ok']} exc={oc.get('exc_type')}"))
    elif n_end > 1:
        out.append(V("stream_shape", f"pipeline_end_twice/{fkind}", f"record types: {types}"))
    elif types[-1] != "pipeline_end":
        out.append(V("stream_shape", f"records_after_pipeline_end/{fkind}", f"record types: {types}"))
    sers = [r for r in recs if r.get("record_type") == "ser"]
    if len(sers) != n_started:
        which = "missing_ser" if len(sers) < n_started else "extra_ser"
        out.append(V("stream_shape", f"{which}/{fkind}", f"{len(sers)} SER(s) for {n_started} started node(s); types={types}"))
    mid = types[1:-1] if n_end == 1 and types and types[-1] == "pipeline_end" else types[1:]
    if any(t != "ser" for t in mid if t not in ("pipeline_end",)):
        out.append(V("stream_shape", f"foreign_record_between/{fkind}", f"record types: {types}"))
    start = recs[0] if recs and types[0] == "pipeline_start" else None
    canon_nodes = []
    edges = []
    if start is not None:
        spec = start.get("pipeline_spec_canonical") or {}
        canon_nodes = [n.get("node_uuid") for n in spec.get("nodes", [])]
        edges = spec.get("edges", [])
        if not canon_nodes:
            out.append(V("stream_shape", f"no_canonical_nodes/{fkind}", "pipeline_start carries no canonical node list"))
    # canonical order
    for i, s in enumerate(sers):
        nid = (s.get("identity") or {}).get("node_id")
        if i < len(canon_nodes) and nid != canon_nodes[i]:
            out.append(V("stream_shape", f"ser_out_of_canonical_order/{fkind}", f"SER {i} node_id {nid} != canonical {canon_nodes[i]}"))
            break
    # "every line validates against the schema the registry maps its record_type to"
    for r in recs:
        errs = harness.schema_errors(r)
        if errs:
            out.append(V("schema", f"{r.get('record_type')}:{errs[0].split(':')[0]}/{fkind}", "; ".join(errs[:3])))
            break
    for r in recs:
        for fld in ("timestamp",):
            if fld in r and harness.parse_rfc3339(r[fld]) is None:
                out.append(V("schema", f"{r.get('record_type')}:timestamp_not_rfc3339/{fkind}", repr(r[fld])))
    # "all records share the run and pipeline IDs"
    run_ids = set()
    pipe_ids = set()
    for r in recs:
        if r.get("record_type") == "ser":
            ident = r.get("identity") or {}
            run_ids.add(ident.get("run_id"))
            pipe_ids.add(ident.get("pipeline_id"))
        else:
            run_ids.add(r.get("run_id"))
            if "pipeline_id" in r:
                pipe_ids.add(r.get("pipeline_id"))
    if len(run_ids) > 1 or None in run_ids:
        out.append(V("ids", f"run_id_not_shared/{fkind}", f"run ids: {sorted(map(str, run_ids))}"))
    if len(pipe_ids) > 1 or None in pipe_ids:
        out.append(V("ids", f"pipeline_id_not_shared/{fkind}", f"pipeline ids: {sorted(map(str, pipe_ids))}"))
    # "SER upstream lists equal the canonical edges"
    up: dict[str, list[str]] = {n: [] for n in canon_nodes}
    for e in edges:
        up.setdefault(e.get("target"), []).append(e.get("source"))
    for i, s in enumerate(sers):
        nid = (s.get("identity") or {}).get("node_id")
        got = (s.get("dependencies") or {}).get("upstream")
        if nid in up and sorted(got or []) != sorted(up[nid]):
            out.append(V("ids", f"upstream_ne_edges/{fkind}", f"SER {i}: upstream {got} != edges {up[nid]}"))
            break
    # "all SERs but a final failing one say succeeded and pipeline_end says ok exactly when the run returned"
    for i, s in enumerate(sers):
        is_last_failing = (not oc["ok"]) and n_started > 0 and i == n_started - 1 and fkind != "transport_fault"
        want = "error" if is_last_failing else "succeeded"
        if s.get("status") != want:
            out.append(V("status", f"ser_status_{s.get('status')}_want_{want}/{fkind}", f"SER {i} of {len(sers)} status={s.get('status')} outcome ok={oc['ok']}"))
            break
    ends = [r for r in recs if r.get("record_type") == "pipeline_end"]
    if len(ends) == 1:
        st = (ends[0].get("summary") or {}).get("status")
        if (st == "ok") != bool(oc["ok"]):
            out.append(V("status", f"pipeline_end_{st}_but_returned_{oc['ok']}/{fkind}", f"summary={ends[0].get('summary')}"))
    # "The original exception reaches the caller unchanged"
    fired = [f for f in w.faults_fired if f["run"] == w.cur_run and f["kind"] != "stall"]
    if fired:
        inj = w.last_injected
        if oc["ok"]:
            out.append(V("exception", f"injected_fault_swallowed/{fkind}", f"fault {fired[0]} fired but the call returned"))
        elif oc.get("exc") is not inj:
            out.append(V("exception", f"exception_replaced/{fkind}", f"caller got {oc.get('exc_type')}: {oc.get('exc_msg')!r}, injected {type(inj).__name__}"))
    # ... also for failures the framework itself prescribes (config-borne kinds): the object that left the node is the
    # object the caller gets
    if not oc["ok"] and rr["exec_log"] and rr["exec_log"][-1].get("status") == "raised":
        orig = rr["exec_log"][-1].get("exc_obj")
        if orig is not None and oc.get("exc") is not orig:
            out.append(V("exception", f"exception_object_replaced/{fkind}", f"node raised {type(orig).__name__}: {orig!s}; caller got {oc.get('exc_type')}: {oc.get('exc_msg')!r}"))
    # "the trace file is flushed and closed when the call returns"
    open_h = [h for h in rr["open_handles"] if h.endswith(".jsonl")]
    if open_h:
        out.append(V("file", f"trace_file_left_open/{fkind}", f"open handles at return: {open_h}"))
    by_file: dict[str, str] = {}
    for _s, rel, t in rr["emissions"]:
        if rel.endswith(".jsonl"):
            by_file[rel] = by_file.get(rel, "") + t
    for rel, text in by_file.items():
        try:
            import stat as _stat
            if not _stat.S_ISREG(os.stat(os.path.join(w.sandbox, rel)).st_mode):
                continue        # a device keeps nothing to read back; open/close bookkeeping above still applies
        except OSError:
            pass
        try:
            with open(os.path.join(w.sandbox, rel), "r", encoding="utf-8") as f:
                disk = f.read()
        except OSError as e:
            disk = f"<unreadable: {e}>"
        if not disk.endswith(text):
            out.append(V("file", f"trace_file_not_flushed/{fkind}", f"{rel}: {len(disk)} bytes on disk, {len(text)} written"))
    return out


# ======================================================================= C07
TS_TOL = 0.001000001


def _ts_problem(ts, readings: set, tz_off: int) -> str | None:
    t = harness.parse_rfc3339(ts)
    if t is None:
        return "not_rfc3339"
    # a millisecond-precision timestamp denotes a reading when it is that reading truncated or rounded to the millisecond
    if any(abs(t - r) < TS_TOL for r in readings):
        return None
    if tz_off and any(abs((t - tz_off) - r) < TS_TOL for r in readings):
        return "local_time_labelled_utc"
    return "not_a_clock_reading"


def check_c07(rr: dict, w, sc: dict, truth: list[dict] | None, fkind: str, tz: str, digest_book: dict) -> list[dict]:
    """C07 for one traced run. truth = generator bookkeeping for the (fault-free) node list or None."""
    out: list[dict] = []
    recs, _ = harness.parse_lines(rr["emissions"])
    parts = split_records(recs)
    sers = parts["ser"]
    oc = rr["outcome"]
    ex = rr["exec_log"]
    nodes = list(getattr(rr["pipeline"].orchestrator, "last_nodes", []) or [])
    tz_off = harness.tz_offset_seconds(tz)
    readings = set(rr["readings"])
    inv_by_node: dict[int, list[dict]] = {}
    for iv in rr["invocations"]:
        inv_by_node.setdefault(iv["node"], []).append(iv)

    from semantiva.data_types import NoDataType
    from semantiva.examples.test_utils import FloatDataType
    init_data = NoDataType() if sc.get("init_data") is None else FloatDataType(float(sc["init_data"]))

    prev_ctx = dict(rr["pre_ctx"])
    prev_data = init_data
    last_ts = None
    # timestamps of lifecycle records
    seq_ts: list[tuple[str, Any]] = []
    for r in recs:
        if r.get("record_type") in ("pipeline_start", "pipeline_end"):
            seq_ts.append((r["record_type"] + ".timestamp", r.get("timestamp")))
        elif r.get("record_type") == "ser":
            tm = r.get("timing") or {}
            seq_ts.append(("ser.started_at", tm.get("started_at")))
            seq_ts.append(("ser.finished_at", tm.get("finished_at")))
    # "every timestamp denotes the true UTC instant in RFC 3339 form, non-decreasing along the stream, whatever the host time zone"
    prev_t = None
    for name, ts in seq_ts:
        prob = _ts_problem(ts, readings, tz_off)
        if prob:
            out.append(V("timestamp", f"{prob}:{name}", f"{name}={ts!r} under TZ={tz}; {len(readings)} clock readings in this call"))
            break
    for name, ts in seq_ts:
        t = harness.parse_rfc3339(ts)
        if t is None:
            continue
        if prev_t is not None and t < prev_t - TS_TOL:
            out.append(V("timestamp", f"decreasing:{name}", f"{name}={ts!r} earlier than its predecessor in the stream (TZ={tz})"))
            break
        prev_t = t

    for k, s in enumerate(sers):
        e = ex[k] if k < len(ex) else None
        failed_here = (not oc["ok"]) and k == len(ex) - 1
        proc = s.get("processor") or {}
        cd = s.get("context_delta") or {}
        tm = s.get("timing") or {}
        tk = truth[k] if truth is not None and k < len(truth) else None
        label = tk["kind"] if tk else "inserted"
        # "durations are non-negative"
        for fld in ("wall_ms", "cpu_ms"):
            v = tm.get(fld)
            if isinstance(v, (int, float)) and v < 0:
                out.append(V("timing", f"negative_{fld}", f"SER {k}: {fld}={v}"))
        # a duration is the length of the interval its own SER brackets (readings of one simulated clock a few steps apart; a step may jump to the end of a second, hence the 10 s tolerance - time-zone offsets are hours)
        ts_a, ts_b = harness.parse_rfc3339(tm.get("started_at")), harness.parse_rfc3339(tm.get("finished_at"))
        if ts_a is not None and ts_b is not None and isinstance(tm.get("wall_ms"), (int, float)) and abs(tm["wall_ms"] - (ts_b - ts_a) * 1000.0) > 10000.0:
            out.append(V("timing", "wall_ms_inconsistent_with_timestamps", f"SER {k}: wall_ms={tm['wall_ms']} but finished_at - started_at = {(ts_b - ts_a) * 1000.0:.0f} ms (TZ={tz})"))
        # a timestamp "denotes the true instant": started_at was read before the node began, finished_at after it ended
        if e is not None and "t_begin" in e:
            ts0 = harness.parse_rfc3339(tm.get("started_at"))
            ts1 = harness.parse_rfc3339(tm.get("finished_at"))
            if ts0 is not None and ts0 > e["t_begin"] + TS_TOL:
                out.append(V("timestamp", "started_at_after_node_began", f"SER {k}: started_at={tm.get('started_at')} but the node began at clock {e['t_begin']}"))
            if ts1 is not None and "t_end" in e and ts1 < e["t_end"] - TS_TOL:
                out.append(V("timestamp", "finished_at_before_node_ended", f"SER {k}: finished_at={tm.get('finished_at')} but the node ended at clock {e['t_end']}"))
        # stall fault: the duration must cover it
        stalls = [f for f in w.faults_fired if f["kind"] == "stall" and f["node"] == k and f["run"] == w.cur_run]
        if stalls and isinstance(tm.get("wall_ms"), (int, float)) and tm["wall_ms"] < 1000:
            out.append(V("timing", "stall_not_reflected_in_wall_ms", f"SER {k}: wall_ms={tm.get('wall_ms')} although the node stalled"))
        if e is not None and e.get("status") == "returned" and not failed_here:
            post = e["post_ctx"]
            # "created_keys/updated_keys equal the actual difference between the context before and after the node"
            want_created = sorted(set(post) - set(prev_ctx))
            want_updated = sorted(kk for kk in set(post) & set(prev_ctx) if not _same(post[kk], prev_ctx[kk]))
            if sorted(cd.get("created_keys") or []) != want_created:
                out.append(V("context_delta", f"created_keys:{label}", f"SER {k} ({proc.get('ref')}): created_keys={cd.get('created_keys')} actual={want_created}"))
            if sorted(cd.get("updated_keys") or []) != want_updated:
                out.append(V("context_delta", f"updated_keys:{label}", f"SER {k} ({proc.get('ref')}): updated_keys={cd.get('updated_keys')} actual={want_updated}"))
        else:
            post = None
        # "processor.ref names the class that ran"
        if k < len(nodes):
            pcls = type(nodes[k].processor)
            want_ref = f"{pcls.__module__}.{pcls.__qualname__}"
            if proc.get("ref") != want_ref:
                out.append(V("processor_ref", f"ref_ne_class:{label}", f"SER {k}: ref={proc.get('ref')} class that ran={want_ref}"))
        ivs = inv_by_node.get(k, [])
        if ivs and tk and not tk["generated"]:
            if str(proc.get("ref", "")).rsplit(".", 1)[-1] != ivs[0]["cls"]:
                out.append(V("processor_ref", f"ref_ne_leaf:{label}", f"SER {k}: ref={proc.get('ref')} but leaf {ivs[0]['cls']} ran"))
        # "processor.parameters and parameter_sources give, for every parameter the node resolved, the value actually
        #  passed and the channel (node, context, default) it actually came from"
        if ivs and tk:
            passed = ivs[0]["kwargs"]
            pars = proc.get("parameters") or {}
            srcs = proc.get("parameter_sources") or {}
            for pname, chan in sorted(tk["channels"].items()):
                if pname not in passed:
                    continue
                # context vs default is decided by the ACTUAL context in front of the node, not by the generator's
                # bookkeeping of which keys earlier nodes create (a rename of a None-valued key, for one, creates nothing:
                # whether it should is C01's question, not this oracle's)
                if chan == "context" and pname not in prev_ctx and not _no_default(tk, pname):
                    chan = "default"
                elif chan == "default" and pname in prev_ctx:
                    chan = "context"
                if pname not in pars:
                    out.append(V("parameters", f"missing:{chan}", f"SER {k} ({proc.get('ref')}): parameter {pname!r} (resolved from {chan}, value {passed[pname]!r}) absent from processor.parameters={pars}"))
                elif not _same(pars[pname], passed[pname]):
                    out.append(V("parameters", f"wrong_value:{chan}", f"SER {k}: parameter {pname!r} reported {pars[pname]!r} but {passed[pname]!r} was passed"))
                if pname in pars or pname in srcs:
                    if srcs.get(pname) != chan:
                        out.append(V("parameters", f"wrong_source:{chan}_reported_{srcs.get(pname)}", f"SER {k}: parameter {pname!r} came from {chan}, parameter_sources says {srcs.get(pname)!r}"))
        # built-in checks
        pre_checks = {c.get("code"): c for c in (s.get("assertions") or {}).get("preconditions", [])}
        post_checks = {c.get("code"): c for c in (s.get("assertions") or {}).get("postconditions", [])}
        rk = pre_checks.get("required_keys_present")
        if rk is not None:
            exp = (rk.get("details") or {}).get("expected_keys") or []
            holds = all(kk in prev_ctx for kk in exp)
            if (rk.get("result") == "PASS") != holds:
                out.append(V("checks", f"required_keys_present_{rk.get('result')}_but_{holds}", f"SER {k}: expected_keys={exp} pre-context keys={sorted(prev_ctx)}"))
            if tk is not None:
                must = [p for p, ch in tk["channels"].items() if ch == "context" and _no_default(tk, p)]
                # ... and a parameter that the node resolved from its signature default is not a required key
                extra = [p for p in exp if tk["channels"].get(p) == "default" and p not in prev_ctx and not _no_default(tk, p)]
                if extra and rk.get("result") != "PASS":
                    out.append(V("checks", "required_keys_present_FAIL_for_defaulted_parameter", f"SER {k}: {extra} resolved from their defaults, yet check={rk}"))
                lack = [p for p in must if p not in exp]
                if lack:
                    out.append(V("checks", "required_keys_present_omits_context_parameter", f"SER {k}: parameters {lack} were resolved from context (no default) but expected_keys={exp}"))
        else:
            out.append(V("checks", "required_keys_present_absent", f"SER {k} has no required_keys_present check"))
        if fkind == "unresolvable" and failed_here and rk is not None and rk.get("result") != "FAIL":
            out.append(V("checks", "required_keys_present_PASS_on_unresolvable", f"SER {k}: parameter {sc.get('fail', {}).get('param')} could not be resolved yet check={rk}"))
        it = pre_checks.get("input_type_ok")
        if it is not None and k < len(nodes):
            try:
                exp_t = nodes[k].processor.input_data_type()
                holds = isinstance(prev_data, exp_t)
                if (it.get("result") == "PASS") != holds:
                    out.append(V("checks", f"input_type_ok_{it.get('result')}_but_{holds}", f"SER {k}: actual {type(prev_data).__name__}, declared {exp_t.__name__}"))
            except Exception:
                pass
        if e is not None and e.get("status") == "returned" and not failed_here:
            ot = post_checks.get("output_type_ok")
            odt = getattr(nodes[k].processor, "output_data_type", None) if k < len(nodes) else None
            if ot is not None and callable(odt):
                try:
                    exp_t = odt()
                    holds = isinstance(e["out_obj"], exp_t)
                    if (ot.get("result") == "PASS") != holds:
                        out.append(V("checks", f"output_type_ok_{ot.get('result')}_but_{holds}", f"SER {k}: actual {type(e['out_obj']).__name__}, declared {exp_t.__name__}"))
                except Exception:
                    pass
            cw = post_checks.get("context_writes_realized")
            if cw is not None:
                det = cw.get("details") or {}
                listed = list(det.get("created_keys") or []) + list(det.get("updated_keys") or [])
                holds = all(kk in post for kk in listed)
                if (cw.get("result") == "PASS") != holds:
                    out.append(V("checks", f"context_writes_realized_{cw.get('result')}_but_{holds}", f"SER {k}: listed={listed} post keys={sorted(post)}"))
        # the node that raised: what it left in the context before raising is known from the executor seam
        if failed_here and e is not None and e.get("ctx_on_error") is not None:
            actual = e["ctx_on_error"]
            want_created = sorted(set(actual) - set(prev_ctx))
            want_updated = sorted(kk for kk in set(actual) & set(prev_ctx) if not _same(actual[kk], prev_ctx[kk]))
            if sorted(cd.get("created_keys") or []) != want_created:
                out.append(V("context_delta", f"created_keys_of_failed_node:{label}", f"error SER {k} ({proc.get('ref')}): created_keys={cd.get('created_keys')} actual={want_created}"))
            if sorted(cd.get("updated_keys") or []) != want_updated:
                out.append(V("context_delta", f"updated_keys_of_failed_node:{label}", f"error SER {k}: updated_keys={cd.get('updated_keys')} actual={want_updated}"))
            cw = post_checks.get("context_writes_realized")
            if cw is not None:
                det = cw.get("details") or {}
                listed = list(det.get("created_keys") or []) + list(det.get("updated_keys") or [])
                holds = all(kk in actual for kk in listed)
                if (cw.get("result") == "PASS") != holds:
                    out.append(V("checks", f"context_writes_realized_{cw.get('result')}_but_{holds}_on_failed_node", f"error SER {k}: listed={listed} context after the failure has {sorted(actual)}"))
            cg = ((s.get("summaries") or {}).get("post_context") or {}).get("sha256")
            if cg is not None:
                import json as _json
                _book(digest_book, "ctx", _json.dumps(actual, sort_keys=True, default=repr), cg, out, k)
        # digests
        sm = s.get("summaries") or {}
        if k + 1 < len(sers):
            nx = sers[k + 1].get("summaries") or {}
            a, b = (sm.get("output_data") or {}).get("sha256"), (nx.get("input_data") or {}).get("sha256")
            if a is not None and b is not None and a != b:
                out.append(V("digest", "output_k_ne_input_k1", f"SER {k} output_data {a} != SER {k+1} input_data {b}"))
            a, b = (sm.get("post_context") or {}).get("sha256"), (nx.get("pre_context") or {}).get("sha256")
            if a is not None and b is not None and a != b:
                out.append(V("digest", "post_ctx_k_ne_pre_ctx_k1", f"SER {k} post_context {a} != SER {k+1} pre_context {b}"))
        if e is not None and e.get("status") == "returned" and not failed_here:
            dg = (sm.get("output_data") or {}).get("sha256")
            if dg is not None:
                import json as _json
                content = _json.dumps(e["out_data"], sort_keys=True, default=repr)
                _book(digest_book, "data", content, dg, out, k)
            cg = (sm.get("post_context") or {}).get("sha256")
            if cg is not None:
                import json as _json
                content = _json.dumps(post, sort_keys=True, default=repr)
                _book(digest_book, "ctx", content, cg, out, k)
        if e is not None and e.get("status") == "returned" and not failed_here:
            prev_ctx = dict(post)
            prev_data = e["out_obj"]
    return out


def _book(book: dict, space: str, content: str, digest: str, out: list, k: int) -> None:
    """'digests are functions of content ... equal content gives equal digests' (and distinct content is told apart)."""
    fwd = book.setdefault(space + ">", {})
    rev = book.setdefault(space + "<", {})
    if content in fwd and fwd[content] != digest:
        out.append(V("digest", f"equal_{space}_content_different_digest", f"SER {k}: content {content[:120]} has digests {fwd[content]} and {digest}"))
    fwd.setdefault(content, digest)
    if digest in rev and rev[digest] != content:
        out.append(V("digest", f"different_{space}_content_same_digest", f"SER {k}: digest {digest} for {rev[digest][:100]} and {content[:100]}"))
    rev.setdefault(digest, content)


def _same(a, b) -> bool:
    try:
        if isinstance(a, float) or isinstance(b, float):
            fa, fb = float(a), float(b)
            return fa == fb or (fa != fa and fb != fb)
    except Exception:
        pass
    try:
        import json
        return json.dumps(a, sort_keys=True, default=repr) == json.dumps(b, sort_keys=True, default=repr)
    except Exception:
        return a == b


def _no_default(tk: dict, p: str) -> bool:
    from .gen import CATALOG
    spec = CATALOG.get(tk["name"])
    return bool(spec) and spec["params"].get(p) is None
