"""Oracles over recorded histories. Every clause quotes the property sentence it enforces."""
from __future__ import annotations

import os
from typing import Any

from . import harness


def V(clause: str, key: str, msg: str) -> dict:
    return {"clause": clause, "key": key, "msg": msg}


def split_records(recs: list[dict]) -> dict:
    return {
        "start": [r for r in recs if r.get("record_type") == "pipeline_start"],
        "ser": [r for r in recs if r.get("record_type") == "ser"],
        "end": [r for r in recs if r.get("record_type") == "pipeline_end"],
        "rs_start": [r for r in recs if r.get("record_type") == "run_space_start"],
        "rs_end": [r for r in recs if r.get("record_type") == "run_space_end"],
    }


def check_c06(rr: dict, w, fkind: str) -> list[dict]:
    """C06 for one traced Pipeline.process call. fkind = failure kind label ('none' if fault-free)."""
    out: list[dict] = []
    oc = rr["outcome"]
    recs, problems = harness.parse_lines(rr["emissions"])
    # "the emitted JSONL stream ..." - every line is one JSON object
    for p in problems:
        out.append(V("jsonl", f"unparseable/{fkind}", p))
    n_started = len(rr["exec_log"])
    types = [r.get("record_type") for r in recs]
    # "is pipeline_start, then one SER per node that started in canonical node order, then exactly one pipeline_end"
    if not types or types[0] != "pipeline_start":
        out.append(V("stream_shape", f"first_not_pipeline_start/{fkind}", f"record types: {types}"))
    if types.count("pipeline_start") != 1:
        out.append(V("stream_shape", f"pipeline_start_count/{fkind}", f"record types: {types}"))
    n_end = types.count("pipeline_end")
    if n_end == 0:
        out.append(V("stream_shape", f"no_pipeline_end/{fkind}", f"record types: {types}; outcome ok={oc['ok']} exc={oc.get('exc_type')}"))
    elif n_end > 1:
        out.append(V("stream_shape", f"pipeline_end_twice/{fkind}", f"record types: {types}"))
    elif types[-1] != "pipeline_end":
        out.append(V("stream_shape", f"records_after_pipeline_end/{fkind}", f"record types: {types}"))
    sers = [r for r in recs if r.get("record_type") == "ser"]
    if len(sers) != n_started:
        which = "missing_ser" if len(sers) < n_started else "extra_ser"
        out.append(V("stream_shape", f"{which}/{fkind}", f"{len(sers)} SER(s) for {n_started} started node(s); types={types}"))
    mid = types[1:-1] if n_end == 1 and types and types[-1] == "pipeline_end" else types[1:]
    if any(t != "ser" for t in mid if t not in ("pipeline_end",)):
        out.append(V("stream_shape", f"foreign_record_between/{fkind}", f"record types: {types}"))
    start = recs[0] if recs and types[0] == "pipeline_start" else None
    canon_nodes = []
    edges = []
    if start is not None:
        spec = start.get("pipeline_spec_canonical") or {}
        canon_nodes = [n.get("node_uuid") for n in spec.get("nodes", [])]
        edges = spec.get("edges", [])
        if not canon_nodes:
            out.append(V("stream_shape", f"no_canonical_nodes/{fkind}", "pipeline_start carries no canonical node list"))
    # canonical order
    for i, s in enumerate(sers):
        nid = (s.get("identity") or {}).get("node_id")
        if i < len(canon_nodes) and nid != canon_nodes[i]:
            out.append(V("stream_shape", f"ser_out_of_canonical_order/{fkind}", f"SER {i} node_id {nid} != canonical {canon_nodes[i]}"))
            break
    # "every line validates against the schema the registry maps its record_type to"
    for r in recs:
        errs = harness.schema_errors(r)
        if errs:
            out.append(V("schema", f"{r.get('record_type')}:{errs[0].split(':')[0]}/{fkind}", "; ".join(errs[:3])))
            break
    for r in recs:
        for fld in ("timestamp",):
            if fld in r and harness.parse_rfc3339(r[fld]) is None:
                out.append(V("schema", f"{r.get('record_type')}:timestamp_not_rfc3339/{fkind}", repr(r[fld])))
    # "all records share the run and pipeline IDs"
    run_ids = set()
    pipe_ids = set()
    for r in recs:
        if r.get("record_type") == "ser":
            ident = r.get("identity") or {}
            run_ids.add(ident.get("run_id"))
            pipe_ids.add(ident.get("pipeline_id"))
        else:
            run_ids.add(r.get("run_id"))
            if "pipeline_id" in r:
                pipe_ids.add(r.get("pipeline_id"))
    if len(run_ids) > 1 or None in run_ids:
        out.append(V("ids", f"run_id_not_shared/{fkind}", f"run ids: {sorted(map(str, run_ids))}"))
    if len(pipe_ids) > 1 or None in pipe_ids:
        out.append(V("ids", f"pipeline_id_not_shared/{fkind}", f"pipeline ids: {sorted(map(str, pipe_ids))}"))
    # "SER upstream lists equal the canonical edges"
    up: dict[str, list[str]] = {n: [] for n in canon_nodes}
    for e in edges:
        up.setdefault(e.get("target"), []).append(e.get("source"))
    for i, s in enumerate(sers):
        nid = (s.get("identity") or {}).get("node_id")
        got = (s.get("dependencies") or {}).get("upstream")
        if nid in up and sorted(got or []) != sorted(up[nid]):
            out.append(V("ids", f"upstream_ne_edges/{fkind}", f"SER {i}: upstream {got} != edges {up[nid]}"))
            break
    # "all SERs but a final failing one say succeeded and pipeline_end says ok exactly when the run returned"
    for i, s in enumerate(sers):
        is_last_failing = (not oc["ok"]) and n_started > 0 and i == n_started - 1
        want = "error" if is_last_failing else "succeeded"
        if s.get("status") != want:
            out.append(V("status", f"ser_status_{s.get('status')}_want_{want}/{fkind}", f"SER {i} of {len(sers)} status={s.get('status')} outcome ok={oc['ok']}"))
            break
    ends = [r for r in recs if r.get("record_type") == "pipeline_end"]
    if len(ends) == 1:
        st = (ends[0].get("summary") or {}).get("status")
        if (st == "ok") != bool(oc["ok"]):
            out.append(V("status", f"pipeline_end_{st}_but_returned_{oc['ok']}/{fkind}", f"summary={ends[0].get('summary')}"))
    # "The original exception reaches the caller unchanged"
    fired = [f for f in w.faults_fired if f["run"] == w.cur_run and f["kind"] != "stall"]
    if fired:
        inj = w.last_injected
        if oc["ok"]:
            out.append(V("exception", f"injected_fault_swallowed/{fkind}", f"fault {fired[0]} fired but the call returned"))
        elif oc.get("exc") is not inj:
            out.append(V("exception", f"exception_replaced/{fkind}", f"caller got {oc.get('exc_type')}: {oc.get('exc_msg')!r}, injected {type(inj).__name__}"))
    # "the trace file is flushed and closed when the call returns"
    open_h = [h for h in rr["open_handles"] if h.endswith(".jsonl")]
    if open_h:
        out.append(V("file", f"trace_file_left_open/{fkind}", f"open handles at return: {open_h}"))
    by_file: dict[str, str] = {}
    for _s, rel, t in rr["emissions"]:
        if rel.endswith(".jsonl"):
            by_file[rel] = by_file.get(rel, "") + t
    for rel, text in by_file.items():
        try:
            with open(os.path.join(w.sandbox, rel), "r", encoding="utf-8") as f:
                disk = f.read()
        except OSError as e:
            disk = f"<unreadable: {e}>"
        if not disk.endswith(text):
            out.append(V("file", f"trace_file_not_flushed/{fkind}", f"{rel}: {len(disk)} bytes on disk, {len(text)} written"))
    return out
