"""RecordingExecutor: the existing SemantivaExecutor seam, observably equal to
SequentialSemantivaExecutor (runs inline, exception propagates out of submit), plus
recording of every node's resulting payload and executor-level fault points."""
from __future__ import annotations

from concurrent.futures import Future
from typing import Any, Callable, Optional

from semantiva.execution.executor.executor import SemantivaExecutor

from . import world as _world


class RecordingExecutor(SemantivaExecutor):
    def submit(self, fn: Callable[..., Any], *args, ser_hooks: Optional[SemantivaExecutor.SERHooks] = None, **kwargs) -> Future:
        w = _world.WORLD
        if w is None:
            fut: Future = Future()
            fut.set_result(fn(*args, **kwargs))
            return fut
        w.cur_node += 1
        idx = w.cur_node
        w.log("exec.begin", w.cur_run, idx)
        entry = {"run": w.cur_run, "node": idx, "status": "started", "t_begin": w.clock.wall}
        w.exec_log.append(entry)
        w.fire("executor_pre")
        ctx_obj = w.cur_ctx_obj if w.remote_exec else None
        pre_remote = _world.copy.deepcopy(ctx_obj.to_dict()) if ctx_obj is not None else None
        try:
            result = fn(*args, **kwargs)
        except BaseException as exc:
            entry["status"] = "raised"
            entry["exc_type"] = type(exc).__name__
            entry["exc_obj"] = exc
            entry["t_end"] = w.clock.wall
            try:
                if w.cur_ctx_obj is not None:
                    entry["ctx_on_error"] = _world.ctx_snapshot(w.cur_ctx_obj)     # what the node left behind before raising
            except Exception:
                pass
            w.log("exec.raise", w.cur_run, idx, type(exc).__name__)
            raise
        entry["status"] = "returned"
        entry["t_end"] = w.clock.wall
        if ctx_obj is not None:
            # Emulate an out-of-process executor (a legal SemantivaExecutor): the caller gets a NEW Payload whose context
            # is a different object, and the context object it submitted is left exactly as it was.
            from semantiva.context_processors import ContextType
            from semantiva.pipeline import Payload
            new_ctx = ContextType(_world.copy.deepcopy(result.context.to_dict()))
            result = Payload(result.data, new_ctx)
            for k in list(ctx_obj.keys()):
                ctx_obj.delete_value(k)
            for k, v in pre_remote.items():
                ctx_obj.set_value(k, v)
            w.cur_ctx_obj = new_ctx
            w.probe("remote_executor_node")
        if not w.remote_exec:
            w.cur_ctx_obj = result.context
        try:
            entry["post_ctx"] = _world.ctx_snapshot(result.context)
            entry["out_type"] = type(result.data).__name__
            entry["out_data"] = _world._data_repr(result.data)
            entry["out_obj"] = result.data
        except Exception:
            pass
        w.log("exec.end", w.cur_run, idx, entry.get("out_type"), repr(entry.get("out_data")))
        w.fire("executor_post")
        fut = Future()
        fut.set_result(result)
        return fut


class PlainExecutor(SemantivaExecutor):
    """Inline executor for the worker loop (no node bookkeeping)."""

    def submit(self, fn, *args, ser_hooks=None, **kwargs) -> Future:
        fut: Future = Future()
        fut.set_result(fn(*args, **kwargs))
        return fut


def _make_orchestrator_class():
    from semantiva.execution.orchestrator.orchestrator import LocalSemantivaOrchestrator

    class SvOrchestrator(LocalSemantivaOrchestrator):
        """Thin subclass over the existing orchestrator seam: tells the world when a run begins,
        then runs the real execute() unchanged. Defaults to the RecordingExecutor."""

        def __init__(self, executor=None, **_ignored):
            super().__init__(executor or RecordingExecutor())

        def execute(self, *args, **kwargs):
            w = _world.WORLD
            if w is not None:
                w.begin_run()
                payload = kwargs.get("payload", args[1] if len(args) > 1 else None)
                w.cur_ctx_obj = getattr(payload, "context", None)
                try:
                    w.run_inputs.append({"run": w.cur_run, "context": _world.ctx_snapshot(payload.context),
                                         "data": _world._data_repr(payload.data)})
                except Exception:
                    w.run_inputs.append({"run": w.cur_run, "context": None, "data": None})
            return super().execute(*args, **kwargs)

    return SvOrchestrator


SvOrchestrator = _make_orchestrator_class()


def _make_transport_class():
    from semantiva.execution.transport import InMemorySemantivaTransport

    class SvTransport(InMemorySemantivaTransport):
        """The existing transport seam: the real in-memory transport plus a fault point in publish()."""

        def publish(self, channel, data, context, metadata=None, require_ack=False):
            w = _world.WORLD
            if w is not None:
                w.fire("transport_publish")
            return super().publish(channel, data, context, metadata=metadata, require_ack=require_ack)

    return SvTransport


SvTransport = _make_transport_class()
