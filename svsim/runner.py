"""Batch runner: seeded search over scenarios, fork-per-seed from warmed workers,
replay files, structured shrinking, known-findings triage, evidence.

Exit codes: 0 held on everything explored (KNOWN-FINDING lines allowed); 1 VIOLATION;
3 harness error (crash, timeout, non-reproducing replay) - never 0 on a timeout kill.
"""
from __future__ import annotations

import hashlib
import importlib
import json
import os
import select
import signal
import struct
import sys
import time
import traceback
from typing import Any

VERIF = os.path.dirname(os.path.dirname(os.path.abspath(__file__)))
from . import scratch_root as _scratch_root
SCRATCH = _scratch_root()
OUT = os.environ.get("SVSIM_OUT") or VERIF   # evidence/ and replays/ live here (mutant runs redirect it)
DEFAULT_SEED = 20261004
NWORKERS = int(os.environ.get("SVSIM_WORKERS", "16"))

# real clock for the harness' own budgets (the parent never installs seams)
_now = time.monotonic
_sleep = time.sleep


def seed_for(master: int, prop: str, i: int) -> int:
    h = hashlib.sha256(f"{master}:{prop}:{i}".encode()).digest()
    return int.from_bytes(h[:8], "big")


def load_prop(prop: str):
    return importlib.import_module(f"svsim.props.{prop.lower()}")


def load_known() -> list[dict]:
    p = os.path.join(VERIF, "known_findings.json")
    if not os.path.exists(p):
        return []
    with open(p) as f:
        return json.load(f).get("findings", [])


def match_known(known: list[dict], prop: str, v: dict) -> dict | None:
    for k in known:
        if k.get("status") != "open" or k.get("property") != prop:
            continue
        if k.get("clause") == v.get("clause") and k.get("key") == v.get("key"):
            return k
    return None


# ---------------------------------------------------------------- child execution
def _run_one(mod, seed: int, tier: str, scenario: dict | None = None) -> dict:
    """Generate (unless given) and execute one scenario; always returns a JSON-able dict."""
    import random
    try:
        if scenario is None:
            scenario = mod.generate(random.Random(seed), tier, seed)
        res = mod.execute(scenario, seed)
        res.setdefault("violations", [])
        res.setdefault("stats", {})
        if res["violations"] and res.get("scenario_patch"):
            # e.g. the recorded choice stream of a failing schedule: the replay file pins it, the shrinker minimises it
            scenario = dict(scenario, **res["scenario_patch"])
        res["scenario"] = scenario if res["violations"] or res.get("keep_scenario") else None
        res["seed"] = seed
        return res
    except BaseException as exc:  # noqa: BLE001
        return {"seed": seed, "harness_error": f"{type(exc).__name__}: {exc}", "trace": traceback.format_exc()[-3000:],
                "violations": [], "stats": {}}


def _fork_run(mod, seeds: list[int], tier: str, timeout: float, scenario: dict | None = None) -> list[dict]:
    """Run seeds in a forked child (fresh copy of the warmed worker state)."""
    r, wfd = os.pipe()
    pid = os.fork()
    if pid == 0:
        try:
            os.close(r)
            out = []
            for s in seeds:
                out.append(_run_one(mod, s, tier, scenario))
            data = json.dumps(out, default=_json_default).encode()
            with os.fdopen(wfd, "wb") as f:
                f.write(data)
        except BaseException:  # noqa: BLE001
            try:
                os.write(2, traceback.format_exc().encode())
            except Exception:
                pass
            os._exit(17)
        os._exit(0)
    os.close(wfd)
    chunks = []
    deadline = _now() + timeout
    timed_out = False
    while True:
        left = deadline - _now()
        if left <= 0:
            timed_out = True
            break
        rl, _, _ = select.select([r], [], [], min(left, 1.0))
        if rl:
            b = os.read(r, 1 << 20)
            if not b:
                break
            chunks.append(b)
    os.close(r)
    if timed_out:
        try:
            os.kill(pid, signal.SIGKILL)
        except ProcessLookupError:
            pass
        os.waitpid(pid, 0)
        _remove_sandboxes(seeds)
        return [{"seed": s, "harness_error": f"timeout after {timeout}s", "violations": [], "stats": {}} for s in seeds]
    _, status = os.waitpid(pid, 0)
    if status != 0 or not chunks:
        return [{"seed": s, "harness_error": f"child exit status {status}", "violations": [], "stats": {}} for s in seeds]
    try:
        return json.loads(b"".join(chunks))
    except Exception as e:  # noqa: BLE001
        return [{"seed": s, "harness_error": f"bad child output: {e}", "violations": [], "stats": {}} for s in seeds]


def _remove_sandboxes(seeds: list[int]) -> None:
    """A killed child cannot clean up: remove the sandboxes its worlds created (named after the seed)."""
    import glob
    import shutil
    for s in seeds:
        for lane_dir in glob.glob(os.path.join(SCRATCH, "*")):
            for d in glob.glob(os.path.join(lane_dir, f"s{s & 0xFFFFFFFFFFFF:x}*")):
                shutil.rmtree(d, ignore_errors=True)


def _json_default(o):
    try:
        import numpy as np
        if isinstance(o, np.generic):
            return o.item()
    except Exception:
        pass
    if isinstance(o, (set, frozenset)):
        return sorted(o, key=repr)
    if isinstance(o, BaseException):
        return repr(o)
    return repr(o)


def _worker(prop: str, wid: int, nworkers: int, master: int, tier: str, n_total: int, deadline: float,
            out_path: str, per_fork: int, timeout: float) -> None:
    """Worker process: warm up once (seams + import semantiva + lib), then fork per seed group."""
    from . import harness
    harness.setup_process()
    mod = load_prop(prop)
    if hasattr(mod, "warm"):
        mod.warm()
    agg = Aggregator(prop)
    idxs = list(range(wid, n_total, nworkers))
    pos = 0
    # SVSIM_STOP_FIRST (sensitivity tooling only): all workers stop dispatching once any of them has seen a violation
    # that is not a listed known finding. Never set by the registered commands.
    stop_flag = os.path.join(os.path.dirname(out_path), "STOP") if os.environ.get("SVSIM_STOP_FIRST") else None
    known = load_known() if stop_flag else []
    with open(out_path, "w") as out:
        while pos < len(idxs):
            if _now() > deadline:
                break
            if stop_flag and os.path.exists(stop_flag):
                break
            group = idxs[pos:pos + per_fork]
            pos += per_fork
            seeds = [seed_for(master, prop, i) for i in group]
            results = _fork_run(mod, seeds, tier, timeout * len(seeds))
            for res in results:
                agg.add(res)
                if pos <= per_fork and res.get("digest") and not res.get("violations"):
                    out.write(json.dumps({"type": "digest", "seed": res["seed"], "digest": res["digest"]}) + "\n")
                if stop_flag and any(match_known(known, prop, v) is None for v in res.get("violations") or []):
                    open(stop_flag, "w").close()
                if res.get("violations") or res.get("harness_error"):
                    out.write(json.dumps({"type": "detail", "res": res}, default=_json_default) + "\n")
        out.write(json.dumps({"type": "agg", "agg": agg.dump(), "done": pos >= len(idxs),
                              "attempted": min(pos, len(idxs))}, default=_json_default) + "\n")


class Aggregator:
    """Sums counters across runs; keeps distinct digests, samples, probe counts."""

    def __init__(self, prop: str):
        self.prop = prop
        self.runs = 0
        self.counters: dict[str, float] = {}
        self.digests: set[str] = set()
        self.nontrivial: set[str] = set()
        self.samples: list[Any] = []
        self.harness_errors = 0

    def add(self, res: dict) -> None:
        self.runs += 1
        if res.get("harness_error"):
            self.harness_errors += 1
        for k, v in (res.get("stats") or {}).items():
            if isinstance(v, (int, float)):
                self.counters[k] = self.counters.get(k, 0) + v
        for d in res.get("digests", []) or []:
            self.digests.add(d)
        for d in res.get("nontrivial", []) or []:
            self.nontrivial.add(d)
        if res.get("sample") is not None and len(self.samples) < 3:
            self.samples.append(res["sample"])

    def dump(self) -> dict:
        return {"runs": self.runs, "counters": self.counters, "digests": sorted(self.digests),
                "nontrivial": sorted(self.nontrivial), "samples": self.samples, "harness_errors": self.harness_errors}

    def merge(self, d: dict) -> None:
        self.runs += d["runs"]
        self.harness_errors += d["harness_errors"]
        for k, v in d["counters"].items():
            self.counters[k] = self.counters.get(k, 0) + v
        self.digests.update(d["digests"])
        self.nontrivial.update(d["nontrivial"])
        for s in d["samples"]:
            if len(self.samples) < 4:
                self.samples.append(s)


# ---------------------------------------------------------------- replay / shrink
def replay_scenario(prop: str, scenario: dict, seed: int, timeout: float | None = None) -> dict:
    """Execute a scenario in a fresh forked child of a warmed process."""
    from . import harness
    harness.setup_process()
    mod = load_prop(prop)
    if timeout is None:
        # a replay is ONE evaluation, but possibly the slowest one (C18: a history extended to 1350 runs, on a loaded machine):
        # three times the per-evaluation limit of the property's tiers, at least two minutes
        timeout = max(120.0, 3.0 * max(float(c.get("timeout_s", 60.0)) for c in mod.CONFIG.values() if isinstance(c, dict)))
    if hasattr(mod, "warm"):
        mod.warm()
    return _fork_run(mod, [seed], "replay", timeout, scenario=scenario)[0]


def _vkey(v: dict) -> tuple:
    return (v.get("clause"), v.get("key"))


def shrink(prop: str, scenario: dict, seed: int, target: tuple, budget_s: float = 45.0) -> dict:
    """Greedy structured shrinking: keep a candidate if the same (clause,key) persists."""
    mod = load_prop(prop)
    if not hasattr(mod, "shrink_candidates"):
        return scenario
    t_end = _now() + budget_s
    cur = scenario
    improved = True
    while improved and _now() < t_end:
        improved = False
        for cand in mod.shrink_candidates(cur):
            if _now() > t_end:
                break
            res = replay_scenario(prop, cand, seed, timeout=60.0)
            if any(_vkey(v) == target for v in res.get("violations", [])):
                cur = res.get("scenario") or cand      # includes a scenario_patch (e.g. the recorded choice stream)
                improved = True
                break
    return cur


def write_replay(prop: str, seed: int, scenario: dict, violation: dict, tag: str = "") -> str:
    d = os.path.join(OUT, "replays", prop)
    os.makedirs(d, exist_ok=True)
    name = f"{seed:x}{tag}.json"
    path = os.path.join(d, name)
    with open(path, "w") as f:
        json.dump({"property": prop, "seed": seed, "violation": violation, "scenario": scenario}, f,
                  indent=1, default=_json_default, sort_keys=True)
    return path


# ---------------------------------------------------------------- main check
def run_check(prop: str, tier: str, master: int | None = None) -> int:
    t0 = _now()
    mod = load_prop(prop)
    cfg = mod.CONFIG[tier]
    if master is None:
        master = int(os.environ.get("VERIF_SEED", DEFAULT_SEED))
    print(f"VERIF_SEED={master} property={prop} tier={tier}", flush=True)
    n_total = int(os.environ.get("SVSIM_RUNS", cfg["runs"]))
    budget = float(os.environ.get("SVSIM_BUDGET", cfg["budget_s"]))
    per_fork = cfg.get("per_fork", 1)
    timeout = cfg.get("timeout_s", 60.0)
    run_dir = os.path.join(SCRATCH, f"run_{prop}_{os.getpid()}")
    os.makedirs(run_dir, exist_ok=True)
    deadline = _now() + budget
    nworkers = min(NWORKERS, max(1, n_total))
    pids = []
    for wid in range(nworkers):
        out_path = os.path.join(run_dir, f"w{wid}.jsonl")
        pid = os.fork()
        if pid == 0:
            code = 0
            try:
                _worker(prop, wid, nworkers, master, tier, n_total, deadline, out_path, per_fork, timeout)
            except BaseException:  # noqa: BLE001
                traceback.print_exc()
                code = 13
            finally:
                sys.stdout.flush()
                sys.stderr.flush()
                os._exit(code)
        pids.append(pid)
    worker_fail = 0
    hard_deadline = deadline + timeout * per_fork + 120
    for pid in pids:
        while True:
            got, status = os.waitpid(pid, os.WNOHANG)
            if got:
                if status != 0:
                    worker_fail += 1
                break
            if _now() > hard_deadline:
                os.kill(pid, signal.SIGKILL)
                os.waitpid(pid, 0)
                worker_fail += 1
                break
            _sleep(0.05)
    agg = Aggregator(prop)
    details = []
    digest_samples: list[tuple[int, str]] = []
    complete = True
    attempted = 0
    for wid in range(nworkers):
        p = os.path.join(run_dir, f"w{wid}.jsonl")
        seen_agg = False
        if os.path.exists(p):
            with open(p) as f:
                for line in f:
                    rec = json.loads(line)
                    if rec["type"] == "digest":
                        digest_samples.append((rec["seed"], rec["digest"]))
                        continue
                    if rec["type"] == "agg":
                        agg.merge(rec["agg"])
                        complete = complete and rec["done"]
                        attempted += rec["attempted"]
                        seen_agg = True
                    else:
                        details.append(rec["res"])
        if not seen_agg:
            worker_fail += 1
    import shutil
    shutil.rmtree(run_dir, ignore_errors=True)

    known = load_known()
    harness_errs = [d for d in details if d.get("harness_error")]
    viol_runs = [d for d in details if d.get("violations")]
    # group violations by (clause,key); choose smallest-seed representative each
    groups: dict[tuple, list] = {}
    for d in viol_runs:
        for v in d["violations"]:
            groups.setdefault(_vkey(v), []).append((d["seed"], d, v))
    exit_code = 0
    known_seen = []
    new_violations = []
    noise_candidates: list[dict] = []
    for key, items in sorted(groups.items(), key=lambda kv: repr(kv[0])):
        items.sort(key=lambda t: t[0])
        seed, d, v = items[0]
        k = match_known(known, prop, v)
        if k is not None:
            known_seen.append({"clause": v["clause"], "key": v["key"], "count": len(items), "id": k.get("id")})
            print(f"KNOWN-FINDING: property={prop} {k.get('id')}: clause={v['clause']} key={v['key']} "
                  f"({len(items)} of {agg.runs} runs) {k.get('summary', '')}", flush=True)
            continue
        if os.environ.get("SVSIM_STOP_FIRST") and len(new_violations) >= 3:
            break       # sensitivity tooling only needs the verdict: three confirmed violation classes are enough
        # new violation: confirm by replay, shrink, replay again
        res = replay_scenario(prop, d["scenario"], seed)
        if not any(_vkey(x) == key for x in res.get("violations", [])):
            if getattr(mod, "NONREPRO_IS_NOISE", None) and mod.NONREPRO_IS_NOISE(v):
                # a measurement-based candidate (C18: growth of the gc population that no named root explains) which a second,
                # independent measurement of the same history does not show is noise of the measurement, not a finding and not
                # a defect of the harness: growth with N is deterministic and would show again
                noise_candidates.append({"clause": key[0], "key": key[1], "seed": seed})
                print(f"NOTE: candidate {key} from seed {seed} did not show in a second measurement of the same history (measurement noise)", flush=True)
                continue
            print(f"HARNESS-ERROR: violation {key} from seed {seed} did not reproduce on replay", flush=True)
            write_replay(prop, seed, d["scenario"], v, tag="_nonrepro")
            exit_code = max(exit_code, 3)
            continue
        small = d["scenario"] if os.environ.get("SVSIM_NO_SHRINK") else shrink(prop, d["scenario"], seed, key, budget_s=mod.CONFIG.get("shrink_s", 40.0))
        res2 = replay_scenario(prop, small, seed)
        vv = next((x for x in res2.get("violations", []) if _vkey(x) == key), None)
        if vv is None:
            small, vv = d["scenario"], v
        path = write_replay(prop, seed, small, vv)
        new_violations.append({"clause": key[0], "key": key[1], "count": len(items), "replay": path, "message": vv.get("msg")})
        print(f"VIOLATION property={prop} replay={path}", flush=True)
        print(f"  clause={key[0]} key={key[1]} runs={len(items)} msg={str(vv.get('msg'))[:300]}", flush=True)
        exit_code = 1 if exit_code != 3 else 3
    if exit_code == 3 and new_violations:
        exit_code = 1
    # reduced determinism self-test: re-execute a few seeds of this batch in a fresh fork of another process
    det = {"checked": 0, "mismatches": 0}
    if digest_samples:
        from . import harness as _h
        _h.setup_process()
        if hasattr(mod, "warm"):
            mod.warm()
        for seed, dg in sorted(digest_samples)[:6]:
            again = _fork_run(mod, [seed], tier, timeout)[0]
            det["checked"] += 1
            if again.get("digest") != dg:
                det["mismatches"] += 1
                print(f"HARNESS-ERROR: nondeterministic replay of seed {seed}: digest {dg} vs {again.get('digest')}", flush=True)
    for h in harness_errs[:5]:
        print(f"HARNESS-ERROR: seed={h['seed']} {h['harness_error']}\n{h.get('trace', '')}", flush=True)
    n_herr = agg.harness_errors
    if worker_fail:
        print(f"HARNESS-ERROR: {worker_fail} worker process(es) failed", flush=True)
    wall = _now() - t0
    ev_problem = None
    try:
        ev_problem = write_evidence(prop, tier, master, mod, agg, wall, known_seen, new_violations, n_herr, complete,
                                    attempted, n_total, det, noise_candidates)
    except Exception:  # noqa: BLE001
        traceback.print_exc()
        ev_problem = "evidence writer failed"
    if exit_code == 0 and det["mismatches"]:
        exit_code = 3
    if exit_code == 0 and (n_herr or worker_fail or ev_problem):
        if ev_problem:
            print(f"HARNESS-ERROR: {ev_problem}", flush=True)
        exit_code = 3
    print(f"done property={prop} runs={agg.runs} distinct={len(agg.digests)} nontrivial={len(agg.nontrivial)} "
          f"violations={len(new_violations)} known={len(known_seen)} harness_errors={n_herr} wall={wall:.1f}s "
          f"complete={complete} exit={exit_code}", flush=True)
    return exit_code


def write_evidence(prop, tier, master, mod, agg: Aggregator, wall, known_seen, new_violations, n_herr, complete,
                   attempted, n_total, det=None, noise_candidates=None) -> str | None:
    c = dict(agg.counters)
    sim_seconds = c.pop("sim_seconds", 0.0)
    faults = {k[len("fault."):]: int(v) for k, v in c.items() if k.startswith("fault.")}
    probes = {k[len("probe."):]: int(v) for k, v in c.items() if k.startswith("probe.")}
    other = {k: (int(v) if float(v).is_integer() else v) for k, v in c.items() if not k.startswith(("fault.", "probe."))}
    ec = getattr(mod, "EVAL_COUNTER", None)
    evaluations = int(other.get(ec, 0)) if ec else int(agg.runs)
    cov = {
        "evaluations": max(evaluations, 1) if agg.runs else evaluations,
        "evaluation_unit": getattr(mod, "EVAL_UNIT", "one seeded scenario (generate + execute)"),
        "seeds_run": int(agg.runs),
        "distinct_nontrivial": len(agg.nontrivial),
        "rule": mod.RULE,
        "samples": agg.samples[:3] or [{"note": "no sample recorded"}],
        "distinct_scenarios": len(agg.digests),
        "planned_evaluations": n_total,
        "completed_all_planned": bool(complete),
        "runs_per_hour": int(agg.runs / max(wall, 1e-6) * 3600),
        "simulated_seconds": round(sim_seconds, 3),
        "faults_fired": faults,
        "reach_probes": probes,
        "counters": other,
        "real_components": mod.REAL_COMPONENTS,
        "stub_components": mod.STUB_COMPONENTS,
        "known_findings_seen": known_seen,
        "candidates_not_confirmed_by_second_measurement": noise_candidates or [],
        "new_violations": new_violations,
        "harness_errors": n_herr,
        "determinism_selftest": det or {},
        "workers": NWORKERS,
        "python_hash_seed": os.environ.get("PYTHONHASHSEED"),
    }
    ev = {
        "property_id": prop, "tier": tier, "seed": int(master), "level": mod.LEVEL,
        "coverage": cov, "assumptions": mod.ASSUMPTIONS, "wall_s": round(wall, 2),
        "violations": len(new_violations),
    }
    os.makedirs(os.path.join(OUT, "evidence"), exist_ok=True)
    with open(os.path.join(OUT, "evidence", f"{prop}.json"), "w") as f:
        json.dump(ev, f, indent=1, default=_json_default, sort_keys=True)
    # reach probes stuck at zero fail the thorough run as a harness error
    stuck = [p for p in getattr(mod, "REQUIRED_PROBES", []) if probes.get(p, 0) == 0]
    if stuck and (tier == "thorough" or complete):
        return f"reach probes stuck at zero: {stuck}"
    disc = other.get("discarded_base_mismatch", 0)
    if agg.runs and disc / agg.runs > 0.02:
        return f"discard rate {disc}/{agg.runs} above 2% - generator bookkeeping diverges from the tree"
    return None


def run_replay(path: str) -> int:
    with open(path) as f:
        rp = json.load(f)
    prop, seed = rp["property"], rp["seed"]
    res = replay_scenario(prop, rp["scenario"], seed)
    want = _vkey(rp["violation"])
    if res.get("harness_error"):
        print(f"HARNESS-ERROR: {res['harness_error']}\n{res.get('trace', '')}")
        return 3
    got = [v for v in res.get("violations", []) if _vkey(v) == want]
    for v in res.get("violations", []):
        print(f"  violation clause={v['clause']} key={v['key']} msg={str(v.get('msg'))[:400]}")
    if got:
        print(f"VIOLATION property={prop} replay={path}")
        print(f"REPRODUCED clause={want[0]} key={want[1]} digest={res.get('digest')}")
        return 1
    print(f"NOT-REPRODUCED property={prop} clause={want[0]} key={want[1]}")
    return 0
