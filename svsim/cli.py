"""Command line: sv check <ID> --tier quick|thorough ; sv replay <file> ; sv selftest determinism."""
from __future__ import annotations

import argparse
import os
import sys


def main(argv=None) -> int:
    ap = argparse.ArgumentParser(prog="sv")
    sub = ap.add_subparsers(dest="cmd", required=True)
    c = sub.add_parser("check")
    c.add_argument("prop")
    c.add_argument("--tier", default="quick", choices=["quick", "thorough"])
    r = sub.add_parser("replay")
    r.add_argument("path")
    s = sub.add_parser("selftest")
    s.add_argument("what", choices=["determinism"])
    s.add_argument("--props", default="")
    s.add_argument("--n", type=int, default=40)
    a = ap.parse_args(argv)
    from . import runner
    if a.cmd == "check":
        tier = os.environ.get("VERIF_TIER", a.tier)
        if tier not in ("quick", "thorough"):
            tier = a.tier
        return runner.run_check(a.prop.upper(), tier)
    if a.cmd == "replay":
        return runner.run_replay(a.path)
    if a.cmd == "selftest":
        from . import selftest
        return selftest.determinism([p for p in a.props.split(",") if p], a.n)
    return 2


if __name__ == "__main__":
    sys.exit(main())
