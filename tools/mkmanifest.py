#!/usr/bin/env python3
"""Regenerates /verif/MANIFEST.json from the table below (keeps it valid at all times)."""
import json
import os

HERE = os.path.dirname(os.path.dirname(os.path.abspath(__file__)))
NA = {
 "C01": "pure function of (configuration, payload): a strictly sequential single-threaded interpreter loop with no schedule, clock, fault or history in the statement; deciding it is differential/property-based testing, not simulation",
 "C02": "soundness of a static analysis w.r.t. the same deterministic execution; quantifies over programs and inputs only - no schedule, fault or history dimension",
 "C03": "sweep expansion order/values are a pure function of the sweep spec; no nondeterminism or fault for a simulator to own",
 "C05": "discrimination of a hash over pairs of configurations: a pure function of its input",
 "C08": "run-space expansion is a pure function of spec + file contents; the 'promptly' clause is a resource bound on that computation, not progress under faults",
 "C11": "whitelist confinement over all expression ASTs: pure and calls for exhaustive enumeration, which is model checking, not seeded simulation",
 "C12": "soundness of a normal form over expression pairs: pure function of the expressions",
 "C16": "contract conformance of generated classes per configuration: pure function of the configuration",
}
CHECKS = {
 "C06": ("fault_enumeration", "DESIGN.md 4.2",
  "Seeded base pipelines; for each, every (failure kind x node index) pair is injected through the executor seam / leaf fault points / config mutation and the recorded JSONL stream is checked against the stated shape, the registry-mapped schemas of the current tree, id sharing, canonical edges, status rules, exception identity and flush/close at return. The failure point and kind are enumerated per pipeline, not sampled.",
  "Trusts jsonschema/referencing, the harness leaf library and RecordingExecutor (inline executor contract). Base pipelines are sampled, failure points per pipeline are exhaustive.",
  "deterministic simulation: seeded pipelines + exhaustive fault injection at every node via executor/leaf seams, trace-stream oracle"),
 "C07": ("exploration", "DESIGN.md 4.3",
  "Same simulated runs under four host TZ settings with the SimClock as the only clock; every SER is compared with the executor log (actual pre/post context, data) and leaf log (class that ran, kwargs actually passed); every timestamp must equal a value the simulated clock returned, in UTC.",
  "Trusts the harness' own RFC 3339 parser and the generator's placement bookkeeping (cross-checked: a base run deviating from it is discarded and counted).",
  "deterministic simulation: simulated clock/TZ seam + recorded execution history compared with SER content"),
 "C10": ("exploration", "DESIGN.md 4.5",
  "Seeded histories in one interpreter (untraced / traced runs, fresh and reused Pipeline objects, other configs in between, clock and uuid streams advancing); outcome equality traced vs untraced and trace equality modulo the documented volatile fields only.",
  "Volatile-field list is taken literally from the statement; leaf and executor are harness code.",
  "deterministic simulation: seeded operation histories with clock/uuid/global-PRNG perturbation (in-process, CLI, fresh interpreters; two caller threads under the seeded scheduler for cold-start runs), differential outcome + normalised-trace oracle"),
 "C13": ("fault_enumeration", "DESIGN.md 4.6",
  "Real runtime as producer (single runs and CLI run-space launches, failing and not, file/dir); crash enumerated after every emitted line; each prefix delivered to the real TraceAggregator in emission order, seeded permutations, k-way per-file interleavings, with mid-way and double finalize; verdicts compared across orders and against a reference computed over the record set.",
  "Trusts the 40-line reference verdict and the file seam's emission order. Traces are sampled; crash points per trace are exhaustive; delivery orders are sampled.",
  "deterministic simulation: crash after every emitted line x seeded delivery schedules into the real aggregator, reference-model oracle"),
 "C04": ("exploration", "DESIGN.md 4.1",
  "Each generated configuration is evaluated in several simulated worlds (clock, TZ, cwd, uuid stream, prior in-process history incl. traced/failing runs of it and of other configs, cosmetic YAML rewrite) and in fresh interpreters under different PYTHONHASHSEED values, along the three paths (inspection payload + `inspect` stdout, Pipeline construction, traced run's pipeline_start); all identities must coincide.",
  "Cosmetic rewrites are validated by yaml.safe_load type-strict equality (a rewrite failing that is a harness error). Equality across worlds only - no re-implementation of the hashes.",
  "deterministic simulation: environment/history perturbation (clock, TZ, cwd, uuid, hash seed, prior operations) with cross-world equality oracle"),
 "C14": ("exploration", "DESIGN.md 4.7",
  "Real InMemorySemantivaTransport driven by 2-3 publisher and 1-2 subscriber tasks under a cooperative scheduler that owns every thread switch (line-granular pre-emption inside transport code); seeded PCT/random-walk/bursty schedules; exactly-once, per-channel order and pattern-match oracles over the recorded history.",
  "Pre-emption at line boundaries of in_memory.py/base.py (incl. the defaultdict factory lambda); CPython switch points inside a single C call are not modelled.",
  "deterministic simulation: baton-passing scheduler over real threads with sys.settrace pre-emption points, seeded schedule search (plus a seeded asyncio cancellation phase), history oracle"),
 "C15": ("exploration", "DESIGN.md 4.8",
  "Real QueueSemantivaOrchestrator.run_forever, 1-4 real worker_loop tasks and a client on a shared real transport under the same scheduler with virtual time; batches of distinct pipelines incl. failing and slow jobs; every Future must complete exactly once with its own job's result (reference = direct Pipeline run) within a bounded virtual time after the last enqueue.",
  "Liveness bound: 10 s + 2 s x jobs of virtual time after the last enqueue once faults stop; threading/queue/time names of the job-queue modules are rebound to simulator shims.",
  "deterministic simulation: cooperative thread scheduler + virtual time over the real master/worker loops, failing/slow/unloadable job, worker-churn, cancelled-Future and bounded-pool-executor injection, bounded-liveness and exactly-once oracles"),
 "C17": ("exploration", "DESIGN.md 4.9",
  "In-process `semantiva run` on configurations valid or invalid by construction in one documented way x CLI flags; leaf log, executor log and sandbox file tree are the observers: nothing may execute or be written when pre-flight must reject or a no-execute flag is given; exit code classes as documented; runs after a failed run never start.",
  "Exit-code classes only where docs/source/cli.rst is unambiguous; otherwise merely non-zero.",
  "deterministic simulation: file-system + executor seams observing in-process CLI runs over generated valid/invalid configurations, failing run injection"),
 "C09": ("exploration", "DESIGN.md 4.4",
  "In-process CLI launches of generated (pipeline, run-space) pairs x file/dir output x launch-id option x attempt x failing run at every index, compared with standalone runs of each planned context, with `inspect` output, and with re-launches after cosmetic rewrites / single-point mutations / source-file changes.",
  "The plan itself is taken from expand_run_space (C08 is not claimed). Trace content is compared after removing the C10 volatile fields and the run-space FK fields.",
  "deterministic simulation: launch histories with failing-run injection at every index, differential oracle vs standalone runs and inspect"),
 "C18": ("exploration", "DESIGN.md 4.10",
  "Long histories (N=450 after warm-up) in one forked interpreter in the four repeat modes; registry sizes and gc population sampled at 50/150/450; growth attributed to named process-level roots by reachability.",
  "gc object increments are exactly reproducible in a forked child (calibrated by a no-op control history); slope threshold 0.5 object/run.",
  "deterministic simulation: long seeded run histories in five repeat modes (queue mode under the thread engine) with registry / module-container / gc growth oracle and root attribution"),
}


def main():
    built = [p for p in CHECKS if os.path.exists(os.path.join(HERE, "svsim", "props", p.lower() + ".py"))]
    checks = []
    for pid in built:
        level, ref, text, note, tech = CHECKS[pid]
        checks.append({
            "property_id": pid,
            "quick_cmd": f"timeout 900 ./sv check {pid} --tier quick",
            "thorough_cmd": f"timeout 3600 ./sv check {pid} --tier thorough",
            "evidence_file": f"/verif/evidence/{pid}.json",
            "replay_cmd_template": "./sv replay {path}",
            "engine": "svsim",
            "level_claimed": {"category": level, "text": text, "design_ref": ref},
            "level_note": note,
            "technique": tech,
        })
    na = [{"property_id": k, "reason": v} for k, v in NA.items()]
    for pid in CHECKS:
        if pid not in built:
            na.append({"property_id": pid, "reason": "claimed in DESIGN.md; check not built yet in this commit (work in progress)"})
    m = {
        "version": 1,
        "setup_cmd": "bash /verif/tools/setup.sh",
        "hooks": {"guard": "SEMANTIVA_VERIF",
                  "enable": "no source hook exists in /repo: every seam is an interface the code already injects (executor, orchestrator, transport, trace driver, loggers, stop events) or a module global the harness rebinds from outside; checks import /repo's working tree directly (PYTHONPATH=/repo)",
                  "baseline_off_cmd": "bash /verif/tools/baseline.sh", "source_commits": [], "add_only": True},
        "engines": [{"name": "svsim", "path": "/verif/svsim", "serves_properties": built,
                     "kind_free_text": "hand-written deterministic simulator: global clock/datetime/uuid seams installed before import, file seam, RecordingExecutor/SvOrchestrator over existing seams, fault plan, cooperative thread scheduler, seeded generators, fork-per-seed runner, structured shrinker, replay files"}],
        "checks": checks,
        "not_applicable": na,
        "notes": "Replay: ./sv replay <file>. Known findings: /verif/known_findings.json. VERIF_SEED selects the master seed (default 20261004); VERIF_TIER overrides --tier.",
    }
    with open(os.path.join(HERE, "MANIFEST.json"), "w") as f:
        json.dump(m, f, indent=1)
    print("MANIFEST.json:", [c["property_id"] for c in checks])


if __name__ == "__main__":
    main()
