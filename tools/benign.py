#!/usr/bin/env python3
"""False-alarm test: run every check against property-PRESERVING variants of semantiva (/verif/benign/*.diff).

usage: benign.py [--suite] [ID ...]

Each variant is a refactoring or timing change under which all claimed properties still hold (import style, a private
attribute renamed, extra clock reads, flush after every record, coarser locking, poll order, an extra CLI message ...).
Every check must exit 0 on every variant: anything else (VIOLATION, harness error, hang) means the check depends on an
incidental detail of the code rather than on the property. The variants are applied to a scratch copy (SVSIM_REPO), never
to /repo. Results: /verif/benign/RESULTS.json.
"""
import glob
import json
import os
import shutil
import subprocess
import sys
import time

HERE = os.path.dirname(os.path.dirname(os.path.abspath(__file__)))
RUNS = {"C06": 200, "C07": 500, "C10": 400, "C13": 400, "C04": 160, "C14": 15000, "C15": 600, "C17": 600, "C09": 200, "C18": 32}


def main():
    args = [a for a in sys.argv[1:] if not a.startswith("--")]
    suite = "--suite" in sys.argv
    only = [a[8:] for a in sys.argv[1:] if a.startswith("--props=")]
    props = only[0].split(",") if only else list(RUNS)
    ids = args or sorted(os.path.basename(p)[:-5] for p in glob.glob(os.path.join(HERE, "benign", "*.diff")))
    res_path = os.path.join(HERE, "benign", "RESULTS.json")
    results = json.load(open(res_path)) if os.path.exists(res_path) else {}
    for name in ids:
        root = f"/dev/shm/semverif/benign_{name}_{os.getpid()}"
        shutil.rmtree(root, ignore_errors=True)
        os.makedirs(root)
        repo = os.path.join(root, "repo")
        entry = results.get(name, {})
        try:
            subprocess.run(["rsync", "-a", "--exclude", ".git", "--exclude", "__pycache__", "--exclude", "logs", "/repo/", repo + "/"], check=True)
            ap = subprocess.run(["git", "apply", "--whitespace=nowarn", os.path.join(HERE, "benign", name + ".diff")], cwd=repo, capture_output=True, text=True)
            if ap.returncode != 0:
                print(name, "PATCH-DOES-NOT-APPLY", ap.stderr[:300], flush=True)
                results[name] = {"applies": False}
                continue
            entry["applies"] = True
            if suite:
                t = subprocess.run(["/venv/bin/python", "-m", "pytest", "-q", "-p", "no:cacheprovider", "-n", "8", "--timeout=900", "-rf",
                                    "--deselect", "tests/test_export_ontology.py::test_export_framework_ontology_script"],
                                   cwd=repo, env=dict(os.environ, PYTHONPATH=repo), capture_output=True, text=True)
                failed = [ln.split()[1] for ln in t.stdout.splitlines() if ln.startswith("FAILED ")]
                ok = t.returncode == 0
                if not ok and failed and len(failed) <= 5:
                    t2 = subprocess.run(["/venv/bin/python", "-m", "pytest", "-q", "-p", "no:cacheprovider", "--timeout=900"] + failed,
                                        cwd=repo, env=dict(os.environ, PYTHONPATH=repo), capture_output=True, text=True)
                    ok = t2.returncode == 0
                entry["suite_passes"] = ok
                entry["suite_tail"] = (t.stdout.strip().splitlines() or [""])[-1]
            entry.setdefault("checks", {})
            for pp in props:
                env = dict(os.environ, SVSIM_REPO=repo, SVSIM_SCRATCH=os.path.join(root, "scratch"), SVSIM_OUT=os.path.join(root, "out"),
                           SVSIM_NO_SHRINK="1", SVSIM_RUNS=str(RUNS[pp]))
                t0 = time.time()
                c = subprocess.run(["timeout", "1200", os.path.join(HERE, "sv"), "check", pp, "--tier", "quick"], env=env, capture_output=True, text=True)
                lines = c.stdout.splitlines()
                entry["checks"][pp] = {"exit": c.returncode, "runs": RUNS[pp],
                                       "problems": [ln.strip()[:300] for ln in lines if ln.startswith(("  clause=", "HARNESS-ERROR"))][:4]}
                print(f"{name:28s} {pp} exit={c.returncode} {time.time() - t0:.0f}s {entry['checks'][pp]['problems'][:1]}", flush=True)
            # with the reduced run counts used here a rare reach probe may stay at zero (exit 3 with only that message): noted, not a failure
            def ok(v):
                return v["exit"] == 0 or (v["exit"] == 3 and v["problems"] and all("reach probes stuck at zero" in p for p in v["problems"]))
            entry["all_green"] = all(ok(v) for v in entry["checks"].values())
            results[name] = entry
        finally:
            shutil.rmtree(root, ignore_errors=True)
        json.dump(results, open(res_path, "w"), indent=1, sort_keys=True)


if __name__ == "__main__":
    main()
