#!/usr/bin/env python3
"""Hand-made breaking patches (sensitivity self-test).

Each mutant is an exact string replacement in one file of /repo. `python3 tools/mutants.py gen`
writes /verif/mutants/<id>.diff (made in a scratch copy; /repo is never touched);
`python3 tools/mutants.py run [ids...]` runs, for each mutant, the repo's own test suite (must
still pass) and the property's quick check against a scratch copy with the patch applied, and
writes /verif/mutants/RESULTS.json.
"""
from __future__ import annotations

import json
import os
import shutil
import subprocess
import sys

HERE = os.path.dirname(os.path.dirname(os.path.abspath(__file__)))
OUTDIR = os.path.join(HERE, "mutants")
ORCH = "semantiva/execution/orchestrator/orchestrator.py"
JSONL = "semantiva/trace/drivers/jsonl.py"
CLI = "semantiva/cli/__init__.py"
AGG = "semantiva/trace/aggregation/aggregator.py"
INMEM = "semantiva/execution/transport/in_memory.py"
QO = "semantiva/execution/job_queue/queue_orchestrator.py"
WK = "semantiva/execution/job_queue/worker.py"
GB = "semantiva/pipeline/graph_builder.py"
IB = "semantiva/inspection/builder.py"
SW = "semantiva/data_processors/parametric_sweep_factory.py"
SC = "semantiva/core/semantiva_component.py"
RSI = "semantiva/trace/runtime/run_space_identity.py"
DC = "semantiva/trace/delta_collector.py"

M = [
    # ---------------------------------------------------------------- C06
    ("c06_end_only_on_success", "C06", ORCH,
     '        except BaseException as exc:\n            if trace_driver is not None:\n                trace_driver.on_pipeline_end(\n                    run_token, {"status": "error", "error": str(exc)}\n                )\n            raise\n',
     '        except BaseException:\n            raise\n'),
    ("c06_no_close_on_error", "C06", ORCH,
     '            if trace_driver is not None:\n                trace_driver.flush()\n                trace_driver.close()\n\n        return Payload(data, context)',
     '            if trace_driver is not None:\n                trace_driver.flush()\n                if sys.exc_info()[0] is None:\n                    trace_driver.close()\n\n        return Payload(data, context)'),
    ("c06_error_ser_says_succeeded", "C06", ORCH,
     '                        ser = self._make_ser_record(\n                            status="error",',
     '                        ser = self._make_ser_record(\n                            status="completed",'),
    ("c06_upstream_wrong_direction", "C06", GB,
     '        mapping.setdefault(edge["target"], []).append(edge["source"])',
     '        mapping.setdefault(edge["source"], []).append(edge["target"])'),
    ("c06_new_run_id_for_end", "C06", ORCH,
     '                trace_driver.on_pipeline_end(\n                    run_token, {"status": "error", "error": str(exc)}\n                )',
     '                trace_driver.on_pipeline_end(\n                    f"run-{uuid.uuid4().hex}", {"status": "error", "error": str(exc)}\n                )'),
    ("c06_exception_wrapped", "C06", ORCH,
     '                        trace_driver.on_node_event(ser)\n                    raise\n',
     '                        trace_driver.on_node_event(ser)\n                        if isinstance(exc, KeyError):\n                            raise KeyError(str(exc)) from exc\n                    raise\n'),
    ("c06_revert_construction_fix", "C06", ORCH,
     '            nodes, node_defs = self._instantiate_nodes(resolved_spec, logger)\n            self._last_nodes = list(nodes)\n\n            for index, node in enumerate(nodes):',
     '            for index, node in enumerate(nodes):'),
    # ---------------------------------------------------------------- C07
    ("c07_local_time_in_ser", "C07", ORCH,
     '            datetime.now(timezone.utc)\n            .replace(tzinfo=None)',
     '            datetime.now()\n            .replace(tzinfo=None)'),
    ("c07_read_keys_never_updated", "C07", DC,
     '            if not _stable_equal(pre_ctx.get(k), post_ctx.get(k))\n',
     '            if k not in required and not _stable_equal(pre_ctx.get(k), post_ctx.get(k))\n'),
    ("c07_context_override_reported_as_default", "C07", ORCH,
     '        context_candidates = list(required_keys) + [\n            k for k in defaults if k not in required_keys\n        ]\n',
     '        context_candidates = list(required_keys)\n'),
    ("c07_digest_of_type", "C07", ORCH,
     '                summary["sha256"] = sha256_bytes(serialize(data))',
     '                summary["sha256"] = sha256_bytes(serialize(type(data).__name__))'),
    ("c07_started_at_after_node", "C07", ORCH,
     '                                "started_at": start_iso,\n                                "finished_at": end_iso,\n                                "wall_ms": duration_ms,\n                                "cpu_ms": cpu_ms,\n                            },\n                            params=params,\n                            param_sources=param_sources,\n                            summaries=summaries,\n                            error=None,',
     '                                "started_at": end_iso,\n                                "finished_at": end_iso,\n                                "wall_ms": duration_ms,\n                                "cpu_ms": cpu_ms,\n                            },\n                            params=params,\n                            param_sources=param_sources,\n                            summaries=summaries,\n                            error=None,'),
    ("c07_driver_timestamp_local", "C07", JSONL,
     '            datetime.now(timezone.utc)\n            .replace(tzinfo=None)',
     '            datetime.now()\n            .replace(tzinfo=None)'),
    ("c07_ref_is_node_class", "C07", ORCH,
     '        proc_cls = node.processor.__class__\n        fqcn = f"{proc_cls.__module__}.{proc_cls.__qualname__}"',
     '        proc_cls = node.processor.__class__\n        fqcn = f"{proc_cls.__module__}.{proc_cls.__name__}"'),
    # ---------------------------------------------------------------- C10
    ("c10_counter_in_tags", "C10", ORCH,
     '            tags={"node_ref": fqcn},',
     '            tags={"node_ref": fqcn, "ordinal": len(self._last_nodes) + id(self) % 7},'),
    ("c10_digest_of_identity", "C10", ORCH,
     '                summary["sha256"] = sha256_bytes(serialize(data))',
     '                summary["sha256"] = sha256_bytes(serialize(data) + b"#" * ((id(data) >> 4) % 2))'),
    ("c10_revert_canonical_copy", "C10", ORCH,
     '            canonical = dict(canonical)\n            canonical["nodes"] = [dict(n) for n in canonical.get("nodes", [])]\n',
     ''),
    ("c10_trace_consumes_context_key", "C10", ORCH,
     '                    summaries = self._init_summaries(data, pre_ctx_view, trace_opts)\n',
     '                    summaries = self._init_summaries(data, pre_ctx_view, trace_opts)\n                    if trace_opts.get("context") and hasattr(context, "delete_value") and "wb" in pre_ctx_view:\n                        context.delete_value("wb")\n'),
    # ---------------------------------------------------------------- C04
    ("c04_node_json_unsorted", "C04", GB,
     '        node_json = json.dumps(canon, sort_keys=True, separators=(",", ":"))',
     '        node_json = json.dumps(canon, separators=(",", ":"))'),
    ("c04_required_keys_unsorted", "C04", IB,
     '    return sorted(set(keys))\n\n\ndef collect_required_context_keys',
     '    return list(set(keys))\n\n\ndef collect_required_context_keys'),
    ("c04_namespace_per_process", "C04", GB,
     '_NODE_NAMESPACE = uuid.UUID("00000000-0000-0000-0000-000000000000")',
     '_NODE_NAMESPACE = uuid.uuid5(uuid.NAMESPACE_DNS, str(__import__("os").getcwd()))'),
    ("c04_revert_sweep_key_sort", "C04", SW,
     '                "context_keys": sorted(getattr(cls, "_from_context_keys", ())),',
     '                "context_keys": list(getattr(cls, "_from_context_keys", ())),'),
    ("c04_config_id_from_declaration_order", "C04", "semantiva/metadata/semantic_id.py",
     '    ordered = sorted(pairs, key=lambda item: item[0])',
     '    ordered = sorted(pairs, key=lambda item: hash(item[0]))'),
    # ---------------------------------------------------------------- C13
    ("c13_end_needs_start", "C13", AGG,
     '            self._runs[run_id] = run\n        run.saw_end = True\n',
     '            self._runs[run_id] = run\n        run.saw_end = run.saw_start\n'),
    ("c13_missing_only_when_ended", "C13", AGG,
     '        missing = sorted(expected_nodes - observed_nodes) if expected_nodes else []',
     '        missing = sorted(expected_nodes - observed_nodes) if expected_nodes and run.saw_end else []'),
    ("c13_finalize_clears_nodes", "C13", AGG,
     '        return RunCompleteness(\n            run_id=run.run_id,\n            status=status_val,',
     '        run.nodes = {}\n        return RunCompleteness(\n            run_id=run.run_id,\n            status=status_val,'),
    ("c13_launch_counts_cached", "C13", AGG,
     '        run_status_counts = {"complete": 0, "partial": 0, "invalid": 0}\n        for run_id in launch.pipelines:\n            completeness = self.finalize_run(run_id)\n            run_status_counts[completeness.status] += 1\n',
     '        run_status_counts = getattr(launch, "_counts", None)\n        if run_status_counts is None:\n            run_status_counts = {"complete": 0, "partial": 0, "invalid": 0}\n            for run_id in launch.pipelines:\n                completeness = self.finalize_run(run_id)\n                run_status_counts[completeness.status] += 1\n            launch._counts = run_status_counts  # type: ignore[attr-defined]\n'),
    ("c13_launch_attach_needs_known_launch", "C13", AGG,
     '            launch = self._launches.get(key)\n            if not launch:\n                launch = LaunchAggregate(\n                    run_space_launch_id=launch_id, run_space_attempt=attempt\n                )\n                self._launches[key] = launch\n            launch.pipelines.add(run_id)',
     '            launch = self._launches.get(key)\n            if launch:\n                launch.pipelines.add(run_id)'),
    # ---------------------------------------------------------------- C14
    ("c14_fnmatch_swapped", "C14", INMEM,
     '                if fnmatch(channel, self._pattern):',
     '                if fnmatch(self._pattern, channel):'),
    ("c14_appendleft", "C14", INMEM,
     '            q.append(msg)',
     '            q.appendleft(msg)'),
    ("c14_revert_setdefault", "C14", INMEM,
     '        entry = self._queues.get(channel)\n        if entry is None:\n            entry = self._queues.setdefault(channel, (deque(), threading.Lock()))\n        q, lock = entry\n',
     '        q, lock = self._queues[channel]\n'),
    ("c14_check_then_create", "C14", INMEM,
     '        entry = self._queues.get(channel)\n        if entry is None:\n            entry = self._queues.setdefault(channel, (deque(), threading.Lock()))\n        q, lock = entry\n',
     '        if channel not in self._queues:\n            self._queues[channel] = (deque(), threading.Lock())\n        q, lock = self._queues[channel]\n'),
    ("c14_peek_then_pop", "C14", INMEM,
     '                    with lock:\n                        msg = q.popleft() if q else None\n                    if msg:',
     '                    msg = q[0] if q else None\n                    if msg:\n                        with lock:\n                            q.popleft()\n                    if msg:'),
    # ---------------------------------------------------------------- C15
    ("c15_no_job_id_annotation", "C15", WK,
     '                    result_ctx.set_value("job_id", job_id)\n',
     '                    if not result_ctx.keys():\n                        result_ctx.set_value("job_id", job_id)\n'),
    ("c15_master_resolves_fifo", "C15", QO,
     '                jid = msg.context.get_value("job_id")\n',
     '                jid = next(iter(self.pending_futures), msg.context.get_value("job_id"))\n'),
    ("c15_revert_failure_status", "C15", WK,
     '                        transport.publish(\n                            f"jobs.{job_id}.status",\n                            data=None,\n                            context=failure_ctx,',
     '                        transport.publish(\n                            f"jobs.{job_id}.failed",\n                            data=None,\n                            context=failure_ctx,'),
    ("c15_status_consumed_without_future_check", "C15", QO,
     "                        # caller's cancel() must not take the master down.\n                        pass\n",
     "                        # caller's cancel() must not take the master down.\n                        pass\n                elif self.pending_futures:\n                    # late status: hand it to the oldest waiter\n                    oldest = next(iter(self.pending_futures))\n                    self.pending_futures.pop(oldest).set_result((msg.data, msg.context))\n"),
    ("c15_shared_context_between_jobs", "C15", QO,
     '            (job_id, pipeline_cfg, data, context or ContextType(), profile_dict)',
     '            (job_id, pipeline_cfg, data, context or _EMPTY_CONTEXT, profile_dict)'),
    # ---------------------------------------------------------------- C17
    ("c17_dry_run_after_execution", "C17", CLI,
     '    if args.dry_run:\n        if ctx_dict and args.verbose:\n            logger.debug("Ignoring --context for dry run")\n        print(f"Graph: {len(pipeline.resolved_spec)} nodes.")',
     '    if args.dry_run and not runs:\n        if ctx_dict and args.verbose:\n            logger.debug("Ignoring --context for dry run")\n        print(f"Graph: {len(pipeline.resolved_spec)} nodes.")'),
    ("c17_missing_keys_skipped_with_run_space", "C17", CLI,
     '    missing = sorted(required_external.difference(probe_context.keys()))\n',
     '    missing = sorted(required_external.difference(probe_context.keys()))\n    if len(runs) > 1:\n        missing = []\n'),
    ("c17_continue_after_failed_run", "C17", CLI,
     '            result_payload = pipeline.process(initial_payload)\n',
     '            try:\n                result_payload = pipeline.process(initial_payload)\n            except Exception as run_exc:\n                print(f"Execution failed: {run_exc}", file=sys.stderr)\n                exit_code = EXIT_RUNTIME_ERROR\n                continue\n'),
    ("c17_revert_order_aware_keys", "C17", IB,
     '    required_context_keys = (\n        all_required_params - all_created_keys\n    ) | required_before_created\n',
     '    required_context_keys = all_required_params - all_created_keys\n'),
    ("c17_over_cap_is_warning", "C17", CLI,
     '            f"Note: Large run spaces may consume significant computational resources.",\n            file=sys.stderr,\n        )\n        return EXIT_CONFIG_ERROR\n',
     '            f"Note: Large run spaces may consume significant computational resources.",\n            file=sys.stderr,\n        )\n        return EXIT_RUNTIME_ERROR\n'),
    ("c17_validate_flag_after_trace_build", "C17", CLI,
     '    if args.validate:\n        if ctx_dict and args.verbose:\n            logger.debug("Ignoring --context for validation")\n        print("Config valid.")\n        return EXIT_SUCCESS\n',
     '    if args.validate and not args.overrides:\n        if ctx_dict and args.verbose:\n            logger.debug("Ignoring --context for validation")\n        print("Config valid.")\n        return EXIT_SUCCESS\n'),
    # ---------------------------------------------------------------- C09
    ("c09_context_shared_between_runs", "C09", CLI,
     '            run_context = copy.deepcopy(ctx_dict)\n            run_context.update(copy.deepcopy(run_values))\n',
     '            run_context = ctx_dict\n            run_context.update(copy.deepcopy(run_values))\n'),
    ("c09_index_one_based", "C09", CLI,
     '                    "run_space_index": idx,',
     '                    "run_space_index": idx + 1,'),
    ("c09_completed_counted_before_run", "C09", CLI,
     '            logger.info("▶️  Run %d/%d starting", idx + 1, run_count)\n',
     '            logger.info("▶️  Run %d/%d starting", idx + 1, run_count)\n            runs_completed = idx + 1\n'),
    ("c09_spec_id_key_order", "C09", RSI,
     '                return {key: normalize(value[key]) for key in sorted(value)}',
     '                return {key: normalize(value[key]) for key in value}'),
    ("c09_inputs_id_with_mtime", "C09", RSI,
     '        digest = self._sha256_file(resolved)\n',
     '        digest = self._sha256_file(resolved) + f"-{int(resolved.stat().st_mtime_ns)}"\n'),
    ("c09_revert_inspect_spec_id", "C09", IB,
     '        run_space = asdict(_parse_run_space_block(run_space))\n',
     '        asdict(_parse_run_space_block(run_space))\n'),
    ("c09_end_not_in_finally", "C09", CLI,
     '    finally:\n        if run_space_emitter is not None and run_space_launch_id is not None:',
     '    if exit_code == EXIT_SUCCESS:\n        if run_space_emitter is not None and run_space_launch_id is not None:'),
    # ---------------------------------------------------------------- C18
    ("c18_revert_weak_registry", "C18", SC,
     '                    bucket.append(weakref.ref(cls))',
     '                    bucket.append(weakref.ref(cls))\n                    _KEEPALIVE.append(cls)'),
    ("c18_history_of_pipeline_starts", "C18", ORCH,
     '            meta["config_id"] = compute_pipeline_config_id(semantic_pairs)\n',
     '            meta["config_id"] = compute_pipeline_config_id(semantic_pairs)\n            _RECENT_RUNS.append((run_id, meta))\n'),
    ("c18_result_cache_untraced", "C18", ORCH,
     '        self._last_nodes = list(nodes)\n',
     '        self._last_nodes = list(nodes)\n            _NODE_CACHE.setdefault(id(self), []).append(nodes)\n'),
]
EXTRA_DEFS = {
    "c06_no_close_on_error": (ORCH, "import time\nimport uuid\n", "import sys\nimport time\nimport uuid\n"),
    "c06_revert_construction_fix": (ORCH, "        trace_active = (\n", "        nodes, node_defs = self._instantiate_nodes(resolved_spec, logger)\n        self._last_nodes = list(nodes)\n\n        trace_active = (\n"),
    "c15_shared_context_between_jobs": (QO, 'PipelineConfig = Union[Pipeline, List[Dict[str, Any]], str]\n', 'PipelineConfig = Union[Pipeline, List[Dict[str, Any]], str]\n_EMPTY_CONTEXT = ContextType()\n'),
    "c18_revert_weak_registry": (SC, '_REGISTRY_LOCK = threading.Lock()\n', '_REGISTRY_LOCK = threading.Lock()\n_KEEPALIVE: list = []\n'),
    "c18_history_of_pipeline_starts": (ORCH, 'T = TypeVar("T")\n', 'T = TypeVar("T")\n_RECENT_RUNS: list = []\n'),
    "c18_result_cache_untraced": (ORCH, 'T = TypeVar("T")\n', 'T = TypeVar("T")\n_NODE_CACHE: dict = {}\n'),
}


def scratch_root() -> str:
    for c in ("/dev/shm", "/tmp"):
        if os.path.isdir(c) and os.access(c, os.W_OK):
            return os.path.join(c, "semverif")
    return "/tmp/semverif"


def _copy_repo(dst: str) -> None:
    subprocess.run(["rsync", "-a", "--exclude", ".git", "--exclude", "__pycache__", "--exclude", "logs", "/repo/", dst + "/"], check=True)


def gen(ids=None) -> None:
    os.makedirs(OUTDIR, exist_ok=True)
    root = os.path.join(scratch_root(), f"mutgen_{os.getpid()}")
    a, b = os.path.join(root, "a"), os.path.join(root, "b")
    os.makedirs(a)
    os.makedirs(b)
    try:
        for mid, prop, path, old, new in M:
            if ids and mid not in ids:
                continue
            edits = [(path, old, new)]
            if mid in EXTRA_DEFS:
                edits.append(EXTRA_DEFS[mid])
            files = sorted({e[0] for e in edits})
            for f in files:
                for side in (a, b):
                    os.makedirs(os.path.dirname(os.path.join(side, f)), exist_ok=True)
                    shutil.copy(os.path.join("/repo", f), os.path.join(side, f))
            ok = True
            for f, o, n in edits:
                p = os.path.join(b, f)
                s = open(p).read()
                if s.count(o) != 1:
                    print(f"!! {mid}: pattern occurs {s.count(o)} times in {f}")
                    ok = False
                    continue
                open(p, "w").write(s.replace(o, n))
            if not ok:
                continue
            out = subprocess.run(["git", "diff", "--no-index", "--no-prefix", "a", "b"], cwd=root, capture_output=True, text=True).stdout
            out = out.replace(" a/semantiva", " a/semantiva").replace("--- a/", "--- a/").replace("+++ b/", "+++ b/")
            # make paths repo-relative with a/ b/ prefixes
            lines = []
            for ln in out.splitlines(keepends=True):
                if ln.startswith("diff --git"):
                    parts = ln.split()
                    ln = f"diff --git a/{parts[2][2:]} b/{parts[3][2:]}\n"
                lines.append(ln)
            open(os.path.join(OUTDIR, f"{mid}.diff"), "w").write("".join(lines))
            for f in files:
                for side in (a, b):
                    os.remove(os.path.join(side, f))
            print("generated", mid)
    finally:
        shutil.rmtree(root, ignore_errors=True)


def run(ids=None, skip_tests=False) -> None:
    res_path = os.path.join(OUTDIR, "RESULTS.json")
    results = json.load(open(res_path)) if os.path.exists(res_path) else {}
    for mid, prop, path, old, new in M:
        if ids and mid not in ids:
            continue
        diff = os.path.join(OUTDIR, f"{mid}.diff")
        if not os.path.exists(diff):
            continue
        root = os.path.join(scratch_root(), f"mutrun_{os.getpid()}")
        shutil.rmtree(root, ignore_errors=True)
        os.makedirs(root)
        try:
            repo = os.path.join(root, "repo")
            _copy_repo(repo)
            ap = subprocess.run(["git", "apply", "--whitespace=nowarn", diff], cwd=repo, capture_output=True, text=True)
            if ap.returncode != 0:
                print(mid, "PATCH FAILED", ap.stderr[:300])
                results[mid] = {"property": prop, "applies": False}
                continue
            entry = {"property": prop, "applies": True}
            if skip_tests:
                # the suite verdict depends on the mutant only (not on /verif): keep it from the previous run
                for k_ in ("tests_pass", "tests_tail", "tests_failed", "tests_rerun_serial"):
                    if k_ in (results.get(mid) or {}):
                        entry[k_] = results[mid][k_]
            if not skip_tests:
                t = subprocess.run(["/venv/bin/python", "-m", "pytest", "-q", "-p", "no:cacheprovider", "-n", "8", "--timeout=900", "-rf",
                                    "--deselect", "tests/test_export_ontology.py::test_export_framework_ontology_script"],
                                   cwd=repo, env=dict(os.environ, PYTHONPATH=repo), capture_output=True, text=True)
                tail = t.stdout.strip().splitlines()[-1] if t.stdout.strip() else ""
                entry["tests_pass"] = t.returncode == 0
                entry["tests_tail"] = tail
                if t.returncode != 0:
                    failed = [ln.split()[1] for ln in t.stdout.splitlines() if ln.startswith("FAILED ")]
                    entry["tests_failed"] = failed[:6]
                    if failed and len(failed) <= 5:
                        t2 = subprocess.run(["/venv/bin/python", "-m", "pytest", "-q", "-p", "no:cacheprovider", "--timeout=900"] + failed,
                                            cwd=repo, env=dict(os.environ, PYTHONPATH=repo), capture_output=True, text=True)
                        entry["tests_pass"] = t2.returncode == 0
                        entry["tests_rerun_serial"] = t2.returncode == 0
            env = dict(os.environ, SVSIM_REPO=repo, SVSIM_SCRATCH=os.path.join(root, "scratch"), SVSIM_OUT=os.path.join(root, "out"),
                       SVSIM_NO_SHRINK="1")
            c = subprocess.run([os.path.join(HERE, "sv"), "check", prop, "--tier", "quick"], env=env, capture_output=True, text=True)
            lines = c.stdout.splitlines()
            entry["check_exit"] = c.returncode
            entry["violations"] = [ln.strip() for ln in lines if ln.startswith("  clause=")][:6]
            entry["done"] = next((ln for ln in lines if ln.startswith("done ")), "")
            entry["detected"] = c.returncode == 1
            results[mid] = entry
            print(f"{mid:45s} tests_pass={entry.get('tests_pass')} detected={entry['detected']} exit={c.returncode} {entry['violations'][:1]}")
        finally:
            shutil.rmtree(root, ignore_errors=True)
        json.dump(results, open(res_path, "w"), indent=1, sort_keys=True)


if __name__ == "__main__":
    cmd = sys.argv[1] if len(sys.argv) > 1 else "gen"
    ids = [a for a in sys.argv[2:] if not a.startswith("--")]
    if cmd == "gen":
        gen(ids)
    elif cmd == "run":
        run(ids, skip_tests="--skip-tests" in sys.argv)
