#!/bin/bash
# Offline setup: verify interpreter + dependencies; install missing ones from the local wheelhouse only.
set -e
PY=/venv/bin/python
$PY -c "import sys; assert sys.version_info[:2] >= (3, 10)"
for pkg in jsonschema referencing yaml numpy; do
  if ! $PY -c "import $pkg" 2>/dev/null; then
    name=$pkg; [ "$pkg" = yaml ] && name=PyYAML
    /venv/bin/pip install --no-index --find-links /opt/veriftools/wheels "$name"
  fi
done
cd /verif
PYTHONPATH=/verif:/repo PYTHONHASHSEED=0 $PY -c "
from svsim import harness
harness.setup_process()
import semantiva, os
assert os.path.abspath(semantiva.__file__).startswith('/repo/'), semantiva.__file__
harness.validators()
print('setup ok: semantiva from', os.path.dirname(semantiva.__file__))
"
mkdir -p /dev/shm/semverif 2>/dev/null || mkdir -p "${TMPDIR:-/tmp}/semverif"
