#!/bin/bash
# Usage: tools/try_patch.sh <patch.diff> <PROP> [runs]   - run a quick check against a scratch copy of /repo with the patch applied.
# The copy lives under the scratch root and is removed afterwards; /repo itself is never touched.
set -u
patch="$(readlink -f "$1")"; prop="$2"; runs="${3:-}"
root="${SVSIM_SCRATCH:-/dev/shm/semverif}/mut_$$"
mkdir -p "$root"
rsync -a --exclude .git --exclude __pycache__ --exclude logs /repo/ "$root/repo/"
( cd "$root/repo" && git init -q . >/dev/null 2>&1; git -C "$root/repo" apply --whitespace=nowarn "$patch" ) || { echo "PATCH-DOES-NOT-APPLY"; rm -rf "$root"; exit 4; }
here="$(cd "$(dirname "$0")/.." && pwd)"
export SVSIM_REPO="$root/repo" SVSIM_SCRATCH="$root/scratch" SVSIM_OUT="$root/out" SVSIM_NO_SHRINK="${SVSIM_NO_SHRINK:-1}"
[ -n "$runs" ] && export SVSIM_RUNS="$runs"
"$here/sv" check "$prop" --tier quick
rc=$?
rm -rf "$root"
exit $rc
