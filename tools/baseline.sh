#!/bin/bash
# Runs the repository's pinned test suite (guard OFF) and compares against /root/.vp/BASELINE.json.
# Exit 0 iff every stable_pass test passes.
out="${1:-/dev/shm/semverif/baseline_$$.xml}"
mkdir -p "$(dirname "$out")"
cd /repo || exit 2
XD=""; [ "${SVSIM_BASELINE_FAST:-0}" = 1 ] && XD="-n 8"   # default: serial, exactly the pinned command
env -u SEMANTIVA_VERIF /venv/bin/python -m pytest -ra -q -p no:cacheprovider --timeout=900 --continue-on-collection-errors --junitxml="$out" $XD >/dev/shm/semverif/baseline_$$.log 2>&1
/venv/bin/python - "$out" <<'PY'
import json, sys, xml.etree.ElementTree as ET
base = json.load(open('/root/.vp/BASELINE.json'))
want = set(base['stable_pass'])
passed = set()
for tc in ET.parse(sys.argv[1]).getroot().iter('testcase'):
    name = f"{tc.get('classname')}::{tc.get('name')}"
    if not any(ch.tag in ('failure', 'error', 'skipped') for ch in tc):
        passed.add(name)
missing = sorted(want - passed)
print(f"baseline: {len(want & passed)}/{len(want)} stable tests pass")
for m in missing[:20]:
    print("  NOT PASSING:", m)
sys.exit(1 if missing else 0)
PY
rc=$?
rm -f "$out" /dev/shm/semverif/baseline_$$.log
exit $rc
