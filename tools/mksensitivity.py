#!/usr/bin/env python3
"""Rewrites the generated table in DESIGN.md section 12 from seeded/*/meta.json and mutants/RESULTS.json."""
import glob
import json
import os

HERE = os.path.dirname(os.path.dirname(os.path.abspath(__file__)))


def main():
    lines = ["", "### Seeded changes (independent sub-agents)", "",
             "| id | confirmed (tests pass / demo 0->1) | caught by | first violation reported |", "|---|---|---|---|"]
    for mp in sorted(glob.glob(os.path.join(HERE, "seeded", "*", "meta.json"))):
        m = json.load(open(mp))
        ck = m.get("checks", {})
        first = ""
        for p in m.get("detected_by", []):
            v = ck[p]["violations"]
            if v:
                first = v[0].split(" msg=")[0]
                break
        lines.append(f"| {m['id']} | {m.get('tests_pass_with_change')} / {m.get('demo_exit_without_change')}->{m.get('demo_exit_with_change')} | "
                     f"{', '.join(m.get('detected_by', [])) or '**not caught**'} | `{first}` |")
    rp = os.path.join(HERE, "mutants", "RESULTS.json")
    if os.path.exists(rp):
        r = json.load(open(rp))
        lines += ["", "### Hand-made mutants (tools/mutants.py)", "",
                  "`suite` = the repository's own tests with the mutant applied (a mutant the suite already catches is weaker evidence).", "",
                  "| mutant | property | suite | caught | first violation reported |", "|---|---|---|---|---|"]
        for k, v in sorted(r.items()):
            first = (v.get("violations") or [""])[0].split(" msg=")[0]
            suite = "passes" if v.get("tests_pass") else "FAILS (" + ", ".join(t.split("::")[-1] for t in v.get("tests_failed", [])[:2]) + ")"
            lines.append(f"| {k} | {v.get('property')} | {suite} | {'yes' if v.get('detected') else '**no**'} (exit {v.get('check_exit')}) | `{first}` |")
        n = len(r)
        d = sum(1 for v in r.values() if v.get("detected"))
        lines += ["", f"{d} of {n} mutants caught by the quick tier of their property's check."]
    p = os.path.join(HERE, "DESIGN.md")
    s = open(p).read()
    a, b = "<!-- SENSITIVITY-TABLE-BEGIN -->", "<!-- SENSITIVITY-TABLE-END -->"
    i, j = s.index(a) + len(a), s.index(b)
    s = s[:i] + "\n" + "\n".join(lines) + "\n" + s[j:]
    open(p, "w").write(s)
    bp = os.path.join(HERE, "benign", "RESULTS.json")
    if os.path.exists(bp) and "<!-- BENIGN-TABLE-BEGIN -->" in s:
        br = json.load(open(bp))
        desc = {m["id"]: m["what"] for m in json.load(open(os.path.join(HERE, "benign", "README.json")))}
        bl = ["", "| variant | what changes | suite | checks run (exit codes other than 0) | verdict |", "|---|---|---|---|---|"]
        for k, v in sorted(br.items()):
            ck = v.get("checks", {})
            bad = {p_: c["exit"] for p_, c in ck.items() if c["exit"] != 0}
            note = ", ".join(f"{p_}: exit {e} ({'rare reach probe not hit at the reduced run count' if e == 3 else 'ALARM'})" for p_, e in sorted(bad.items())) or "-"
            bl.append(f"| {k} | {desc.get(k, '')} | {'passes' if v.get('suite_passes') else ('not run' if 'suite_passes' not in v else 'FAILS')} | "
                      f"{len(ck)} ({note}) | {'no alarm' if v.get('all_green') else '**ALARM**'} |")
        a2, b2 = "<!-- BENIGN-TABLE-BEGIN -->", "<!-- BENIGN-TABLE-END -->"
        i2, j2 = s.index(a2) + len(a2), s.index(b2)
        s = s[:i2] + "\n" + "\n".join(bl) + "\n" + s[j2:]
        open(p, "w").write(s)
    print("updated DESIGN.md")


if __name__ == "__main__":
    main()
