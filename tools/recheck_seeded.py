#!/usr/bin/env python3
"""Re-run the property checks against every filed seeded change and refresh the `checks` / `detected_by` part of its meta.json.

usage: recheck_seeded.py [ID ...]          (default: every /verif/seeded/<ID>/ that has a patch.diff)

The confirmation part of meta.json (suite passes with the change, demo 0 -> 1) was established when the change was filed
(tools/verify_seeded.py) and is kept. Each check runs the registered quick tier against a scratch copy of /repo with the
patch applied (SVSIM_REPO), with SVSIM_STOP_FIRST=1 SVSIM_NO_SHRINK=1 so that the batch ends at the first new violation;
the scratch copy is removed afterwards. /repo itself is never patched.
"""
import glob
import json
import os
import shutil
import subprocess
import sys
import time

HERE = os.path.dirname(os.path.dirname(os.path.abspath(__file__)))


def head(path):
    return subprocess.run(["git", "-C", path, "rev-parse", "--short", "HEAD"], capture_output=True, text=True).stdout.strip()


def main():
    ids = sys.argv[1:] or sorted(os.path.basename(os.path.dirname(p)) for p in glob.glob(os.path.join(HERE, "seeded", "*", "patch.diff")))
    for name in ids:
        d = os.path.join(HERE, "seeded", name)
        mp = os.path.join(d, "meta.json")
        meta = json.load(open(mp)) if os.path.exists(mp) else {"id": name, "property": name.split("-")[0]}
        prop = meta.get("property") or name.split("-")[0]
        root = f"/dev/shm/semverif/recheck_{name}_{os.getpid()}"
        shutil.rmtree(root, ignore_errors=True)
        os.makedirs(root)
        repo = os.path.join(root, "repo")
        t0 = time.time()
        try:
            subprocess.run(["rsync", "-a", "--exclude", ".git", "--exclude", "__pycache__", "--exclude", "logs", "/repo/", repo + "/"], check=True)
            ap = subprocess.run(["git", "apply", "--whitespace=nowarn", os.path.join(d, "patch.diff")], cwd=repo, capture_output=True, text=True)
            if ap.returncode != 0:
                print(name, "PATCH-DOES-NOT-APPLY", ap.stderr[:300], flush=True)
                meta["patch_applies"] = False
                json.dump(meta, open(mp, "w"), indent=1)
                continue
            cenv = dict(os.environ, SVSIM_REPO=repo, SVSIM_SCRATCH=os.path.join(root, "scratch"), SVSIM_OUT=os.path.join(root, "out"),
                        SVSIM_STOP_FIRST="1", SVSIM_NO_SHRINK="1")
            props = [prop] + [p for p in meta.get("detected_by", []) if p != prop]
            meta["checks"] = {}
            for pp in props:
                c = subprocess.run([os.path.join(HERE, "sv"), "check", pp, "--tier", "quick"], env=cenv, capture_output=True, text=True)
                lines = c.stdout.splitlines()
                meta["checks"][pp] = {"exit": c.returncode, "violations": [ln.strip()[:400] for ln in lines if ln.startswith("  clause=")][:6],
                                      "done": next((ln for ln in lines if ln.startswith("done ")), ""),
                                      "cmd": f"SVSIM_REPO=<scratch copy with patch> SVSIM_STOP_FIRST=1 SVSIM_NO_SHRINK=1 ./sv check {pp} --tier quick"}
            meta["detected_by"] = [pp for pp in props if meta["checks"][pp]["exit"] == 1]
            meta["rechecked_at"] = {"verif_commit": head(HERE), "repo_commit": head("/repo")}
            json.dump(meta, open(mp, "w"), indent=1)
            print(name, "detected_by", meta["detected_by"], f"{time.time() - t0:.0f}s",
                  (meta["checks"][prop]["violations"] or [""])[0][:160], flush=True)
        finally:
            shutil.rmtree(root, ignore_errors=True)


if __name__ == "__main__":
    main()
