#!/usr/bin/env python3
"""(Re)generates /verif/benign/*.diff + README.json against /repo's current tree.

Each variant is a list of (file, old text, new text, count) edits; count 0 = replace all. A variant whose anchor text is
gone (the code moved on) stops the script: fix the anchor, never skip silently.
"""
import json
import os
import re
import shutil
import subprocess

HERE = os.path.dirname(os.path.dirname(os.path.abspath(__file__)))
SRC = "/repo"
OUT = os.path.join(HERE, "benign")
WORK = "/dev/shm/semverif/mkbenign"

IM = "semantiva/execution/transport/in_memory.py"
QO = "semantiva/execution/job_queue/queue_orchestrator.py"
WK = "semantiva/execution/job_queue/worker.py"
JL = "semantiva/trace/drivers/jsonl.py"
ORC = "semantiva/execution/orchestrator/orchestrator.py"
CLI = "semantiva/cli/__init__.py"
AG = "semantiva/trace/aggregation/aggregator.py"
RP = "semantiva/inspection/reporter.py"
EX = "semantiva/execution/executor/executor.py"

VARIANTS = [
    ("b01_import_style", "transport / job queue import Lock, Thread, Queue, Empty, sleep directly instead of through their modules", [
        (IM, "import threading\n", "import threading\nfrom threading import Lock, Thread\n", 1), (IM, "threading.Lock()", "Lock()", 0),
        (IM, "threading.Thread(", "Thread(", 0),
        (QO, "import queue\n", "import queue\nfrom queue import Queue, Empty\n", 1), (QO, "queue.Queue = queue.Queue()", "Queue = Queue()", 0),
        (QO, "except queue.Empty", "except Empty", 0),
        (WK, "import time\n", "from time import sleep\n", 1), (WK, "time.sleep(", "sleep(", 0)]),
    ("b02_private_rename", "in-memory transport: private attribute _queues renamed _channels", [(IM, "_queues", "_channels", 0)]),
    ("b03_flush_every_record", "JSONL driver flushes after every record", [
        (JL, '            self._file.write(json.dumps(record, sort_keys=True) + "\\n")',
         '            self._file.write(json.dumps(record, sort_keys=True) + "\\n")\n            self._file.flush()', 0)]),
    ("b04_global_rlock", "in-memory transport: publish additionally serialised by one global re-entrant lock (coarser, still correct)", [
        (IM, "        self._connected = False\n\n    def connect", "        self._connected = False\n        self._big_lock = threading.RLock()\n\n    def connect", 1),
        (IM, "        with lock:\n            q.append(msg)", "        with self._big_lock:\n            with lock:\n                q.append(msg)", 1)]),
    ("b05_extra_clock_reads", "orchestrator reads wall and cpu clocks twice more per node (debug timing kept in a local)", [
        (ORC, "        return time.time(), time.process_time(), self._iso_now()",
         "        _probe = (time.perf_counter(), time.time())  # noqa: F841 - debug timing\n        return time.time(), time.process_time(), self._iso_now()", 1),
        (ORC, "        end_iso = self._iso_now()\n        duration_ms", "        end_iso = self._iso_now()\n        _probe = time.monotonic()  # noqa: F841\n        duration_ms", 1)]),
    ("b06_poll_order", "worker sleeps before (not after) an empty poll; master waits 0.1 s instead of 0.2 s for a job", [
        (WK, "            # If no messages arrived, sleep briefly to avoid busy-looping\n            if not got_message:\n                time.sleep(poll_interval)\n", "", 1),
        (WK, '            sub = transport.subscribe("jobs.*.cfg")\n            got_message = False\n',
         '            sub = transport.subscribe("jobs.*.cfg")\n            got_message = False\n            time.sleep(poll_interval / 2)\n', 1),
        (QO, "timeout=0.2", "timeout=0.1", 1)]),
    ("b07_cli_banner", "`semantiva run` writes one more informational line to stderr (verbose mode) before doing anything", [
        (CLI, "    logger = _configure_logger(args.verbose, args.quiet)\n\n    raw_config = _load_yaml(Path(args.pipeline))",
         "    logger = _configure_logger(args.verbose, args.quiet)\n    if args.verbose:\n        print(f\"semantiva run: {args.pipeline}\", file=sys.stderr)\n\n    raw_config = _load_yaml(Path(args.pipeline))", 1)]),
    ("b08_master_phase_order", "queue master: an additional early shutdown check at the top of its loop (only when nothing is queued or pending)", [
        (QO, "        while self.running:\n            # -- Publish phase --",
         "        while self.running:\n            if self.stop_event and self.stop_event.is_set() and self.job_queue.empty() and not self.pending_futures:\n"
         "                self.logger.info(\"Master stopping due to stop event.\")\n                break\n            # -- Publish phase --", 1)]),
    ("b09_aggregator_result_order", "aggregator.finalize_all returns runs and launches sorted by id instead of first-seen order", [
        (AG, "        run_results = [self.finalize_run(run.run_id) for run in self._runs.values()]",
         "        run_results = [self.finalize_run(rid) for rid in sorted(self._runs)]", 1),
        (AG, "            for launch_id, attempt in self._launches.keys()", "            for launch_id, attempt in sorted(self._launches.keys())", 1)]),
    ("b10_trace_file_names", "directory-mode trace files are named <run_id>_<timestamp> instead of <timestamp>_<run_id> (microsecond timestamp)", [
        (JL, '            timestamp = datetime.now().strftime("%Y%m%d-%H%M%S")\n            path = path / f"{timestamp}_{run_id}.ser.jsonl"',
         '            timestamp = datetime.now().strftime("%Y%m%dT%H%M%S%f")\n            path = path / f"{run_id}_{timestamp}.ser.jsonl"', 1)]),
    ("b11_inspect_extra_lines", "`semantiva inspect` prints one more informational line in the identity block", [
        (RP, '    _write("Configuration Identity\\n", stream)',
         '    _write("Configuration Identity\\n", stream)\n    _write(f"- Required context keys: {len(required_keys)}\\n", stream)', 1)]),
    ("b12_future_subclass", "sequential executor returns a plain completed concurrent.futures.Future", [
        (EX, "        return SequentialSemantivaExecutor._ImmediateFuture(result)",
         "        fut: Future = Future()\n        fut.set_result(result)\n        return fut", 1)]),
    ("b13_yaml_loader_sorts_keys", "the CLI normalises every loaded YAML mapping to sorted key order before use", [
        (CLI, '        with path.open("r", encoding="utf-8") as f:\n            return yaml.safe_load(f)',
         '        with path.open("r", encoding="utf-8") as f:\n            return _sorted_maps(yaml.safe_load(f))', 1),
        (CLI, "def _load_yaml(path: Path) -> Any:",
         "def _sorted_maps(obj: Any) -> Any:\n    if isinstance(obj, dict):\n        return {k: _sorted_maps(obj[k]) for k in sorted(obj, key=str)}\n"
         "    if isinstance(obj, list):\n        return [_sorted_maps(x) for x in obj]\n    return obj\n\n\ndef _load_yaml(path: Path) -> Any:", 1)]),
]


def main():
    os.makedirs(OUT, exist_ok=True)
    metas = []
    for name, desc, edits in VARIANTS:
        root = os.path.join(WORK, name)
        shutil.rmtree(root, ignore_errors=True)
        for f in sorted({e[0] for e in edits}):
            for side in ("a", "b"):
                os.makedirs(os.path.dirname(f"{root}/{side}/{f}"), exist_ok=True)
                shutil.copy(f"{SRC}/{f}", f"{root}/{side}/{f}")
        for f, old, new, cnt in edits:
            p = f"{root}/b/{f}"
            s = open(p).read()
            if old not in s:
                raise SystemExit(f"{name}: anchor not found in {f}: {old[:60]!r}")
            s = s.replace(old, new) if cnt == 0 else s.replace(old, new, cnt)
            open(p, "w").write(s)
        d = subprocess.run(["git", "diff", "--no-index", "--no-prefix", "a", "b"], cwd=root, capture_output=True, text=True).stdout
        d = re.sub(r"^diff --git a/(\S+) b/(\S+)", r"diff --git a/\1 b/\1", d, flags=re.M)
        d = re.sub(r"^--- a/", "--- a/", d, flags=re.M)
        d = re.sub(r"^\+\+\+ b/", "+++ b/", d, flags=re.M)
        open(os.path.join(OUT, name + ".diff"), "w").write(d)
        metas.append({"id": name, "what": desc})
    json.dump(metas, open(os.path.join(OUT, "README.json"), "w"), indent=1)
    shutil.rmtree(WORK, ignore_errors=True)
    print(f"{len(metas)} benign variants written to {OUT}")


if __name__ == "__main__":
    main()
