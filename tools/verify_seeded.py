#!/usr/bin/env python3
"""Verify a sub-agent's seeded change independently and file it under /verif/seeded/<id>/.

usage: verify_seeded.py <PROP> <X> [--runs N]     (reads /tmp/sa/<PROP>/SEEDED/<X>/{patch.diff,demo.py,README.md})
Steps (all in a scratch copy of /repo, removed afterwards): demo on clean copy (want exit 0), apply patch, run the
repo's test suite (want pass apart from the known failing test), demo again (want exit 1), then run the property's
quick check against the patched copy.
"""
import json
import os
import shutil
import subprocess
import sys

HERE = os.path.dirname(os.path.dirname(os.path.abspath(__file__)))


def main():
    prop, x = sys.argv[1], sys.argv[2]
    src = f"/tmp/sa/{prop}/SEEDED/{x}"
    name = f"{prop}-{x}"
    root = f"/dev/shm/semverif/seed_{name}_{os.getpid()}"
    shutil.rmtree(root, ignore_errors=True)
    os.makedirs(root)
    repo = os.path.join(root, "repo")
    meta = {"id": name, "property": prop, "source": "independent sub-agent, given only the property text and a private worktree"}
    try:
        subprocess.run(["rsync", "-a", "--exclude", ".git", "--exclude", "__pycache__", "--exclude", "logs", "/repo/", repo + "/"], check=True)
        env = dict(os.environ, PYTHONPATH=repo, PYTHONDONTWRITEBYTECODE="1")
        demo = os.path.join(src, "demo.py")
        text = open(demo).read().replace(f"/tmp/sa/{prop}", repo)
        dpath = os.path.join(root, "demo.py")
        open(dpath, "w").write(text)
        d0 = subprocess.run(["/venv/bin/python", dpath], cwd=repo, env=env, capture_output=True, text=True, timeout=600)
        meta["demo_exit_without_change"] = d0.returncode
        ap = subprocess.run(["git", "apply", "--whitespace=nowarn", os.path.join(src, "patch.diff")], cwd=repo, capture_output=True, text=True)
        meta["patch_applies"] = ap.returncode == 0
        if ap.returncode != 0:
            print("patch does not apply:", ap.stderr[:500])
        t = subprocess.run(["/venv/bin/python", "-m", "pytest", "-q", "-p", "no:cacheprovider", "-n", "8", "--timeout=900", "-rf",
                            "--deselect", "tests/test_export_ontology.py::test_export_framework_ontology_script"],
                           cwd=repo, env=env, capture_output=True, text=True)
        meta["tests_pass_with_change"] = t.returncode == 0
        meta["tests_tail"] = (t.stdout.strip().splitlines() or [""])[-1]
        if t.returncode != 0:
            # the suite has a load-sensitive flake under xdist: re-run exactly the failed tests serially
            failed = [ln.split()[1] for ln in t.stdout.splitlines() if ln.startswith("FAILED ")]
            if failed and len(failed) <= 5:
                t2 = subprocess.run(["/venv/bin/python", "-m", "pytest", "-q", "-p", "no:cacheprovider", "--timeout=900"] + failed,
                                    cwd=repo, env=env, capture_output=True, text=True)
                meta["tests_rerun_serial"] = {"tests": failed, "pass": t2.returncode == 0}
                meta["tests_pass_with_change"] = t2.returncode == 0
        d1 = subprocess.run(["/venv/bin/python", dpath], cwd=repo, env=env, capture_output=True, text=True, timeout=600)
        meta["demo_exit_with_change"] = d1.returncode
        meta["demo_output_with_change"] = (d1.stdout + d1.stderr)[-600:]
        cenv = dict(os.environ, SVSIM_REPO=repo, SVSIM_SCRATCH=os.path.join(root, "scratch"), SVSIM_OUT=os.path.join(root, "out"))
        for a in sys.argv[3:]:
            if a.startswith("--runs="):
                cenv["SVSIM_RUNS"] = a.split("=")[1]
        props = [prop] + [a[8:] for a in sys.argv[3:] if a.startswith("--also=")]
        meta["checks"] = {}
        for pp in props:
            c = subprocess.run([os.path.join(HERE, "sv"), "check", pp, "--tier", "quick"], env=cenv, capture_output=True, text=True)
            lines = c.stdout.splitlines()
            meta["checks"][pp] = {"exit": c.returncode, "violations": [ln.strip()[:400] for ln in lines if ln.startswith("  clause=")][:6],
                                  "done": next((ln for ln in lines if ln.startswith("done ")), ""),
                                  "cmd": f"SVSIM_REPO=<scratch copy with patch> ./sv check {pp} --tier quick"}
        meta["detected_by"] = [pp for pp in props if meta["checks"][pp]["exit"] == 1]
        ok = meta["patch_applies"] and meta["tests_pass_with_change"] and meta["demo_exit_with_change"] == 1 and meta["demo_exit_without_change"] == 0
        meta["confirmed"] = bool(ok)
        readme = open(os.path.join(src, "README.md")).read() if os.path.exists(os.path.join(src, "README.md")) else ""
        meta["needs_to_manifest"] = readme[:1500]
        print(json.dumps({k: meta[k] for k in ("id", "confirmed", "patch_applies", "tests_pass_with_change", "tests_tail", "demo_exit_without_change",
                                                "demo_exit_with_change", "detected_by")}, indent=1))
        for pp in props:
            print(pp, meta["checks"][pp]["exit"], meta["checks"][pp]["violations"][:3])
        if ok or "--keep" in sys.argv:
            dst = os.path.join(HERE, "seeded", name)
            os.makedirs(dst, exist_ok=True)
            shutil.copy(os.path.join(src, "patch.diff"), dst)
            shutil.copy(os.path.join(src, "demo.py"), dst)
            if readme:
                shutil.copy(os.path.join(src, "README.md"), dst)
            json.dump(meta, open(os.path.join(dst, "meta.json"), "w"), indent=1)
    finally:
        shutil.rmtree(root, ignore_errors=True)


if __name__ == "__main__":
    main()
