#!/bin/bash
# Single entry point: sv check <ID> [--tier quick|thorough] | sv replay <file> | sv selftest determinism
here="$(cd "$(dirname "$0")" && pwd)"
repo="${SVSIM_REPO:-/repo}"
export SVSIM_REPO="$repo"
export PYTHONPATH="$here:$repo${PYTHONPATH:+:$PYTHONPATH}"
export PYTHONHASHSEED="${PYTHONHASHSEED:-0}"
export OPENBLAS_NUM_THREADS=1 OMP_NUM_THREADS=1 MKL_NUM_THREADS=1
export PYTHONDONTWRITEBYTECODE=1
exec /venv/bin/python -m svsim.cli "$@"
